---- MODULE MC_A3_two_members_2x2 ----
EXTENDS ClusterMutex, TLC
G == {"g1", "g2", "g3", "g4"}
HOf == ("g1" :> "h1" @@ "g2" :> "h1" @@ "g3" :> "h2" @@ "g4" :> "h2")
MOf == ("h1" :> "m1" @@ "h2" :> "m2")
====
