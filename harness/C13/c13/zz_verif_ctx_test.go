//go:build verif

package c13

import "context"

type stdctx = context.Context

func bg() context.Context { return context.Background() }
