//go:build verif

//go:debug asynctimerchan=0

package mqttproxy

// C16 — sessions across reconnect and client-id takeover on the real broker.  Every well-formed
// sequence of events for ONE client id (connect clean/non-clean, subscribe, unsubscribe, network drop of
// the current or of a superseded connection, admin session delete), each followed to quiescence;
// after every event probe messages show which connection receives what, compared with the
// reference session model (DESIGN A.6).

import (
	"fmt"
	"sort"
	"strings"
	"testing"
	"testing/synctest"

	"github.com/eclipse/paho.mqtt.golang/packets"
	"github.com/megaease/easegress/pkg/zzverif/mc"
)

type c16Ref struct {
	persisted map[string]bool // nil: none
	current   int             // index into conns, -1 none
	subs      map[string]bool
	clean     bool
}

var c16Topics = []string{"t1", "t2"}

// half-dead-current: the broker's writes to the current connection start failing while its read loop keeps
// waiting (the broker then closes the connection on the next write, but the connection stays registered and
// its read loop notices only when the link is finally dropped, as a "superseded"/dead connection).
var c16Events = []string{"connect-clean", "connect-keep", "subscribe-t1", "subscribe-t2", "subscribe-t1-qos0", "unsubscribe-t1", "drop-current", "drop-superseded", "admin-delete", "admin-delete-late-watch-event", "half-dead-current", "storage-stalls", "storage-resumes"}

// storage-stalls / storage-resumes: the session store (etcd) stops answering puts for a while; what was written
// meanwhile is persisted, in order, when it resumes.  Connections are only attempted while the storage works
// (otherwise "the previous session" is not defined yet).

func setStr(m map[string]bool) string {
	var k []string
	for s := range m {
		k = append(k, s)
	}
	sort.Strings(k)
	return "{" + strings.Join(k, ",") + "}"
}

func cloneSet(m map[string]bool) map[string]bool {
	o := map[string]bool{}
	for k := range m {
		o[k] = true
	}
	return o
}

func TestVerifC16(t *testing.T) {
	synctest.Test(t, func(t *testing.T) {
		env := mc.GetEnv()
		L := 7
		if env.Thorough() {
			L = 8
		}
		run := func(c *mc.Ctx) {
			vb := vNewBroker(&Spec{})
			defer vb.close()
			ref := &c16Ref{current: -1}
			var conns []*vClient
			open := map[int]bool{}
			var hist []string
			stalled := false
			probe := func(after string) {
				for _, tp := range c16Topics {
					for _, cl := range conns {
						cl.take()
					}
					for _, pq := range []int{0, 1} {
						if pq == 1 && tp != "t1" {
							continue // only t1 is ever subscribed at QoS 0
						}
						for _, cl := range conns {
							cl.take()
						}
						vb.httpPublish(tp, pq, "probe")
						for i, cl := range conns {
							got := len(publishesOf(cl.take()))
							if i == ref.current {
								want := 0
								if (pq == 0 && ref.subs[tp]) || (pq == 1 && ref.subs[tp+"#q1"]) {
									want = 1
								}
								if got != want {
									kind := "current-connection-misses-message"
									if got > want {
										kind = "current-connection-gets-unsubscribed-topic"
									}
									c.Failf(kind+":after-"+after, "history %v: QoS %d probe on %s: current connection #%d received %d copies, reference expects %d (subscriptions %s, persisted %s)",
										hist, pq, tp, i, got, want, setStr(ref.subs), setStr(ref.persisted))
								}
							}
						}
					}
				}
				// registration and session map must agree with the reference
				vb.b.RLock()
				rc, registered := vb.b.clients["c"]
				if registered && ref.current < 0 && rc.disconnected() {
					registered = false // a closed connection whose read loop has not ended yet may linger in the table
				}
				vb.b.RUnlock()
				_, hasSess := vb.b.sessMgr.sessionMap.Load("c")
				if registered != (ref.current >= 0) {
					c.Failf(fmt.Sprintf("registration:registered=%v,expected=%v:after-%s", registered, ref.current >= 0, after), "history %v: broker has client registered=%v, reference current connection=%d", hist, registered, ref.current)
				}
				if ref.current >= 0 && !hasSess {
					c.Failf("session-map-entry-missing:after-"+after, "history %v: the current connection #%d has no entry in the session map", hist, ref.current)
				}
			}
			for step := 0; step < L; step++ {
				// enabled events in the current state
				var en []string
				for _, e := range c16Events {
					ok := true
					switch e {
					case "connect-clean", "connect-keep":
						ok = len(conns) < 3 && !stalled
					case "storage-stalls":
						ok = !stalled && ref.current >= 0
					case "storage-resumes":
						ok = stalled
					case "admin-delete-late-watch-event":
						ok = ref.current >= 0 && !stalled
					case "admin-delete":
						// reading: what a session delete means for writes that the stalled storage has not
						// applied yet is not defined by the statement, so the two are not combined
						ok = ref.current >= 0 && !stalled
					case "subscribe-t1", "subscribe-t2", "subscribe-t1-qos0", "unsubscribe-t1", "drop-current", "half-dead-current":
						ok = ref.current >= 0
					case "drop-superseded":
						ok = false
						for i := range conns {
							if open[i] && i != ref.current {
								ok = true
							}
						}
					}
					if ok {
						en = append(en, e)
					}
				}
				if len(en) == 0 {
					break // three connections used up and none open
				}
				e := en[c.Choose(len(en), "event")]
				hist = append(hist, e)
				c.Note("%s", e)
				switch e {
				case "storage-stalls":
					vb.store.stall()
					stalled = true
				case "storage-resumes":
					vb.store.resume()
					stalled = false
					synctest.Wait()
				case "connect-clean", "connect-keep":
					clean := e == "connect-clean"
					cl := vb.connect("c", clean)
					cl.mu.Lock()
					cl.autoAck = true // QoS 1 probes are acknowledged at once: no retransmission reaches a later probe
					cl.mu.Unlock()
					if cl.connack != packets.Accepted {
						c.Failf("connect-refused", "history %v: CONNACK %d", hist, cl.connack)
					}
					conns = append(conns, cl)
					open[len(conns)-1] = true
					ref.current = len(conns) - 1
					ref.clean = clean
					if !clean && ref.persisted != nil {
						ref.subs = cloneSet(ref.persisted)
					} else {
						ref.subs = map[string]bool{}
					}
					if clean {
						ref.persisted = nil
					} else {
						ref.persisted = cloneSet(ref.subs)
					}
				case "subscribe-t1", "subscribe-t2", "subscribe-t1-qos0":
					// the QoS of a subscription is part of the session: "t#q1" in the reference sets = subscribed at QoS 1;
					// a SUBSCRIBE for a topic the session already has replaces its QoS
					tp, q := strings.TrimSuffix(e[len("subscribe-"):], "-qos0"), byte(1)
					if strings.HasSuffix(e, "-qos0") {
						q = 0
					}
					if !conns[ref.current].subscribe(tp, q) {
						c.Failf("subscribe-not-acked", "history %v", hist)
					}
					ref.subs[tp] = true
					if q == 1 {
						ref.subs[tp+"#q1"] = true
					} else {
						delete(ref.subs, tp+"#q1")
					}
					if !ref.clean {
						ref.persisted = cloneSet(ref.subs)
					}
				case "unsubscribe-t1":
					p := packets.NewControlPacket(packets.Unsubscribe).(*packets.UnsubscribePacket)
					p.MessageID, p.Topics = 77, []string{"t1"}
					conns[ref.current].send(p)
					synctest.Wait()
					delete(ref.subs, "t1")
					delete(ref.subs, "t1#q1")
					if !ref.clean {
						ref.persisted = cloneSet(ref.subs)
					}
				case "drop-current":
					conns[ref.current].drop()
					open[ref.current] = false
					ref.current = -1
					ref.subs = nil
					if ref.clean {
						ref.persisted = nil
					}
				case "half-dead-current":
					cur := conns[ref.current]
					cur.srv.FailWrites()
					cur.send(packets.NewControlPacket(packets.Pingreq)) // the PINGRESP cannot be written
					synctest.Wait()
					// for the session model this is the end of the current connection; its link stays open
					ref.current = -1
					ref.subs = nil
					if ref.clean {
						ref.persisted = nil
					}
				case "drop-superseded":
					for i := range conns {
						if open[i] && i != ref.current {
							conns[i].drop()
							open[i] = false
							break
						}
					}
				case "admin-delete-late-watch-event":
					// the storage's delete event reaches the broker late (etcd watches are asynchronous); meanwhile the client,
					// still connected, sends a SUBSCRIBE whose session write lands after the delete. Once the event is delivered
					// the client must be disconnected all the same. What is persisted afterwards is the delete/write race the
					// statement leaves open (see "admin-delete" above), so the history ends here.
					vb.store.holdWatch()
					vb.httpDeleteSession("c")
					cur := conns[ref.current]
					if !cur.subscribe("t2", 1) {
						c.Failf("subscribe-not-acked", "history %v (delete event still under way)", hist)
					}
					synctest.Wait()
					vb.store.releaseWatch()
					synctest.Wait()
					cur.send(packets.NewControlPacket(packets.Pingreq))
					synctest.Wait()
					if !cur.closedByBroker() {
						c.Failf("admin-delete-does-not-disconnect:late-watch-event", "history %v: the session was deleted through the admin endpoint, the client subscribed before the delete event reached the broker, and its connection still works after the event was delivered", hist)
					}
					c.Outcome("last=admin-delete-late-watch-event disconnected")
					return
				case "admin-delete":
					vb.httpDeleteSession("c")
					cur := conns[ref.current]
					// the client is disconnected: its next packet must get the connection closed
					cur.send(packets.NewControlPacket(packets.Pingreq))
					synctest.Wait()
					if !cur.closedByBroker() {
						c.Failf("admin-delete-does-not-disconnect", "history %v: after deleting the session the connection still works", hist)
					}
					open[ref.current] = false
					ref.current = -1
					ref.subs = nil
					ref.persisted = nil
				}
				probe(e)
			}
			c.Outcome(fmt.Sprintf("last=%s connected=%v subs=%s persisted=%s conns=%d", hist[len(hist)-1], ref.current >= 0, setStr(ref.subs), setStr(ref.persisted), len(conns)))
		}
		job := mc.Job{Name: "event-sequences",
			Run: func(r *mc.Result, env *mc.Env) {
				mc.Explore(r, mc.Options{Job: "event-sequences", MaxDev: -1, SubShard: env.Shard, SubN: env.NShards, SubDepth: 3, Env: env}, run)
			},
			Replay: func(ch []int) (*mc.Failure, []string) { return mc.ReplayOne(run, ch) }}
		mc.RunJobsAll("C16", []mc.Job{job})
	})
}
