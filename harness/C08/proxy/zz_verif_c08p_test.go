//go:build verif

//go:debug asynctimerchan=0

package proxy

// C08 proxy part — a short-circuited call is reported as 503 / shortCircuited and no server is
// contacted; after waitDurationInOpenState only the permitted number of trial calls go through.

import (
	"fmt"
	"io"
	"net/http"
	"strings"
	"testing"
	"testing/synctest"
	"time"

	"github.com/megaease/easegress/pkg/zzverif/mc"
)

func TestVerifC08proxy(t *testing.T) {
	synctest.Test(t, func(t *testing.T) {
		y := "name: proxy\nkind: Proxy\npools:\n- servers:\n  - url: http://10.0.0.1:80\n  failureCodes: [503]\n  circuitBreakerPolicy: cb\n"
		pol := "name: cb\nkind: CircuitBreaker\nslidingWindowType: COUNT_BASED\nslidingWindowSize: 3\nminimumNumberOfCalls: 2\nfailureRateThreshold: 50\nwaitDurationInOpenState: 2s\npermittedNumberOfCallsInHalfOpenState: 1\n"
		run := func(c *mc.Ctx) {
			p, err := vNewProxy(y, []string{pol})
			if err != nil {
				c.Failf("spec-rejected", "%v", err)
			}
			calls := 0
			fnSendRequest = func(r *http.Request, client *http.Client) (*http.Response, error) {
				calls++
				code := []int{200, 503}[c.Choose(2, "backend-status")]
				return &http.Response{StatusCode: code, Header: http.Header{}, Body: io.NopCloser(strings.NewReader("x")), ContentLength: 1}, nil
			}
			// reference: count window of the last 3 results, min 2, 50%
			var window []bool
			open, half := false, false
			var openedAt time.Time
			for i := 0; i < 7; i++ {
				if c.Choose(2, "sleep-2s-first") == 1 {
					time.Sleep(2 * time.Second)
				}
				wantShort := false
				if open {
					if time.Since(openedAt) < 2*time.Second {
						wantShort = true
					} else {
						open, half = false, true
					}
				}
				before := calls
				stdr, _ := http.NewRequest("GET", "http://client.example/x", nil)
				o := vHandle(p, stdr)
				made := calls - before
				c.Note("request %d: status %d result %q calls %d (expect short-circuit %v)", i+1, o.status, o.result, made, wantShort)
				if wantShort {
					if o.status != 503 || o.result != resultShortCircuited || made != 0 {
						c.Failf("short-circuit-contract", "request %d while OPEN: status %d result %q backend calls %d; want 503 / shortCircuited / 0", i+1, o.status, o.result, made)
					}
					c.AddOutcome("short")
					continue
				}
				if o.result == resultShortCircuited || made != 1 {
					c.Failf("unexpected-short-circuit", "request %d while the reference breaker is not OPEN: result %q backend calls %d", i+1, o.result, made)
				}
				failed := o.status == 503
				if half {
					half = false
					window = nil
					if failed {
						open, openedAt = true, time.Now()
					}
					c.AddOutcome(fmt.Sprintf("trial-%v", failed))
					continue
				}
				window = append(window, failed)
				if len(window) > 3 {
					window = window[1:]
				}
				nf := 0
				for _, f := range window {
					if f {
						nf++
					}
				}
				if len(window) >= 2 && nf*100 >= 50*len(window) {
					open, openedAt = true, time.Now()
				}
				c.AddOutcome(fmt.Sprintf("call-%v", failed))
			}
		}
		mc.RunJobsAll("C08", []mc.Job{mc.ExploreJob(mc.Options{Job: "proxy-short-circuit", MaxDev: -1}, run)})
	})
}
