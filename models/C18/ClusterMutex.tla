------------------------------ MODULE ClusterMutex ------------------------------
(* Model of pkg/cluster/mutex.go on top of etcd's concurrency.Mutex.

   A goroutine uses one HANDLE (the object returned by Cluster.Mutex(name)); a handle belongs to one MEMBER
   of the cluster; every member has ONE etcd session (lease).  mutex.Lock = take the handle's process-local
   sync.Mutex, then concurrency.Mutex.Lock: put the key <name>/<lease> unless it exists already (the key is per
   SESSION, not per handle), then wait until that key is the oldest one under <name>.  mutex.Unlock deletes the
   key and releases the local mutex.

   Observable events (replayed against the implementation): Call(g), Acquire(g) (= Lock returns), Unlock(g). *)
EXTENDS Naturals, Sequences, FiniteSets

CONSTANTS Goroutines,      \* set of goroutines
          HandleOf,        \* [Goroutines -> Handles]
          MemberOf         \* [Handles -> Members]

Handles == {HandleOf[g] : g \in Goroutines}
Members == {MemberOf[h] : h \in Handles}
None    == "none"

VARIABLES pc,          \* [Goroutines -> {"idle","wantLocal","wantEtcd","check","waiting","holding","done"}]
          localHolder, \* [Handles -> Goroutines \cup {None}]
          keys         \* sequence of members: the lock keys in creation-revision order

vars == <<pc, localHolder, keys>>

Mem(g) == MemberOf[HandleOf[g]]
InSeq(s, x) == \E i \in 1..Len(s) : s[i] = x
Remove(s, x) == SelectSeq(s, LAMBDA y : y # x)

Init == /\ pc = [g \in Goroutines |-> "idle"]
        /\ localHolder = [h \in Handles |-> None]
        /\ keys = <<>>

Call(g) == /\ pc[g] = "idle"
           /\ pc' = [pc EXCEPT ![g] = "wantLocal"]
           /\ UNCHANGED <<localHolder, keys>>

LocalLock(g) == /\ pc[g] = "wantLocal"
                /\ localHolder[HandleOf[g]] = None
                /\ localHolder' = [localHolder EXCEPT ![HandleOf[g]] = g]
                /\ pc' = [pc EXCEPT ![g] = "wantEtcd"]
                /\ UNCHANGED keys

\* the key is created only if the session has none yet
PutKey(g) == /\ pc[g] = "wantEtcd"
             /\ keys' = IF InSeq(keys, Mem(g)) THEN keys ELSE Append(keys, Mem(g))
             /\ pc' = [pc EXCEPT ![g] = "check"]
             /\ UNCHANGED localHolder

Wait(g) == /\ pc[g] = "check"
           /\ Len(keys) > 0 /\ Head(keys) # Mem(g)
           /\ pc' = [pc EXCEPT ![g] = "waiting"]
           /\ UNCHANGED <<localHolder, keys>>

Acquire(g) == /\ pc[g] \in {"check", "waiting"}
              /\ Len(keys) > 0 /\ Head(keys) = Mem(g)
              /\ pc' = [pc EXCEPT ![g] = "holding"]
              /\ UNCHANGED <<localHolder, keys>>

Unlock(g) == /\ pc[g] = "holding"
             /\ keys' = Remove(keys, Mem(g))
             /\ localHolder' = [localHolder EXCEPT ![HandleOf[g]] = None]
             /\ pc' = [pc EXCEPT ![g] = "done"]

\* a waiter whose key vanished (deleted by another handle of the same session) re-creates nothing: etcd's
\* waitDeletes returns and Lock returns as acquired once no older key exists
Next == \E g \in Goroutines : Call(g) \/ LocalLock(g) \/ PutKey(g) \/ Wait(g) \/ Acquire(g) \/ Unlock(g)

Spec == Init /\ [][Next]_vars

Holders == {g \in Goroutines : pc[g] = "holding"}
AtMostOneHolder == Cardinality(Holders) <= 1
TypeOK == /\ \A h \in Handles : localHolder[h] \in Goroutines \cup {None}
          /\ \A i \in 1..Len(keys) : keys[i] \in Members
=================================================================================
