//go:build verif

//go:debug asynctimerchan=0

package circuitbreaker

// C08 concurrent part — three callers (acquire; record) on the real CircuitBreaker (its
// sync.Mutex replaced by the gated vsync.Mutex), every schedule at gate granularity; the
// observed outputs must be explained by some linearisation (consistent with call/return
// order) of the reference automaton.

import (
	"fmt"
	"testing"
	"testing/synctest"
	"time"

	"github.com/megaease/easegress/pkg/zzverif/mc"
	"github.com/megaease/easegress/pkg/zzverif/vrt"
)

type c08cOp struct {
	actor     int
	kind      string // "acquire" | "record"
	call, ret int
	ok        bool // acquire output
}

type c08Pre struct {
	name  string
	pol   int // index into c08Policies
	drive func(s *c08Sys, c *mc.Ctx)
	tick  bool // add a fourth actor that advances the clock by the wait duration
}

func c08Pres() []c08Pre {
	op := func(s *c08Sys, c *mc.Ctx, i int) { s.Apply(c, i) }
	acquire, recS, recF := 0, 1, 2 // record(token#0, success|failure)
	tickWait := 1 + 3*c08MaxPending + 2
	return []c08Pre{
		{"closed-one-failure-from-open", 1, func(s *c08Sys, c *mc.Ctx) { // COUNT n3 min2 f50 s50 p2
			op(s, c, acquire)
			op(s, c, recF)
		}, false},
		{"closed-fresh", 2, func(s *c08Sys, c *mc.Ctx) {}, false},
		{"closed-one-failure-from-open+clock", 1, func(s *c08Sys, c *mc.Ctx) {
			op(s, c, acquire)
			op(s, c, recF)
		}, true},
		{"open-wait-elapsed", 1, func(s *c08Sys, c *mc.Ctx) {
			op(s, c, acquire)
			op(s, c, recF)
			op(s, c, acquire)
			op(s, c, recF)
			op(s, c, tickWait)
		}, false},
		{"half-open-one-admitted", 1, func(s *c08Sys, c *mc.Ctx) {
			op(s, c, acquire)
			op(s, c, recF)
			op(s, c, acquire)
			op(s, c, recF)
			op(s, c, tickWait)
			op(s, c, acquire)
			op(s, c, recS)
		}, false},
		{"time-window-closed", 7, func(s *c08Sys, c *mc.Ctx) { // TIME n3 min2 f50 s50 p2
			op(s, c, acquire)
			op(s, c, recF)
		}, false},
	}
}

var c08cResults = []int{1, 0, 2} // actor 0 records failure, actor 1 success, actor 2 slow

func TestVerifC08sched(t *testing.T) {
	synctest.Test(t, func(t *testing.T) {
		vrt.SetMode(vrt.ModeFree)
		env := mc.GetEnv()
		maxDev := 2
		if env.Thorough() {
			maxDev = -1
		}
		pols := c08Policies()
		var jobs []mc.Job
		for _, pre := range c08Pres() {
			pre := pre
			run := func(c *mc.Ctx) {
				sys := newC08Sys(pols[pre.pol])
				pre.drive(sys, c)
				sys.pending = nil
				cb := sys.cb
				clock := 0
				var ops []*c08cOp
				sch := vrt.New(c)
				for a := 0; a < 3; a++ {
					a := a
					sch.Go(fmt.Sprintf("caller%d", a), func() {
						o := &c08cOp{actor: a, kind: "acquire"}
						clock++
						o.call = clock
						ok, id := cb.AcquirePermission()
						clock++
						o.ret, o.ok = clock, ok
						ops = append(ops, o)
						if !ok {
							return
						}
						r := &c08cOp{actor: a, kind: "record"}
						clock++
						r.call = clock
						d := c08SlowThr - 1
						if c08cResults[a] == 2 {
							d = c08SlowThr
						}
						cb.RecordResult(id, c08cResults[a] == 1, d)
						clock++
						r.ret = clock
						ops = append(ops, r)
					})
				}
				if pre.tick {
					sch.Go("clock", func() {
						o := &c08cOp{actor: 3, kind: "tick"}
						clock++
						o.call = clock
						c08Clock = c08Clock.Add(c08Wait)
						clock++
						o.ret = clock
						ops = append(ops, o)
					})
				}
				start := c08Clock
				if msg := sch.Run(); msg != "" {
					c.Failf("scheduler:"+msg[:8], "%s\nschedule: %s", msg, sch.TraceString())
				}
				c.Note("schedule: %s", sch.TraceString())
				final := cb.State()
				admitted := 0
				for _, o := range ops {
					if o.kind == "acquire" && o.ok {
						admitted++
					}
				}
				c.Outcome(fmt.Sprintf("admitted=%d final=%s", admitted, c08StateName(final)))
				// linearisability: some order consistent with call/return order explains outputs + final state
				if !c08Linearizable(pols[pre.pol], pre, ops, final, start) {
					c.Failf("not-linearizable:"+pre.name, "pre-state %s policy %s: outputs %s final state %s are not explained by any sequential order of the reference\nschedule: %s",
						pre.name, pols[pre.pol].name, c08OpsString(ops), c08StateName(final), sch.TraceString())
				}
			}
			jobs = append(jobs, mc.ExploreJob(mc.Options{Job: "sched/" + pre.name, MaxDev: maxDev}, run))
		}
		mc.RunJobs("C08", jobs)
	})
}

func c08OpsString(ops []*c08cOp) string {
	s := ""
	for _, o := range ops {
		s += fmt.Sprintf("[caller%d %s call@%d ret@%d ok=%v] ", o.actor, o.kind, o.call, o.ret, o.ok)
	}
	return s
}

func c08Linearizable(pol c08Policy, pre c08Pre, ops []*c08cOp, final State, now time.Time) bool {
	n := len(ops)
	used := make([]bool, n)
	order := make([]int, 0, n)
	var try func() bool
	check := func() bool {
		// rebuild the reference in the pre-state
		sys := newC08Sys(pol)
		dummy := &mc.Ctx{}
		pre.drive(sys, dummy)
		ref := sys.ref
		now := now // the clock of this candidate order
		tok := map[int]uint32{}
		for _, i := range order {
			o := ops[i]
			if o.kind == "tick" {
				now = now.Add(c08Wait)
			} else if o.kind == "acquire" {
				ok, id := ref.acquire(now)
				if ok != o.ok {
					return false
				}
				tok[o.actor] = id
			} else {
				d := c08SlowThr - 1
				if c08cResults[o.actor] == 2 {
					d = c08SlowThr
				}
				ref.record(tok[o.actor], c08cResults[o.actor] == 1, d, now)
			}
		}
		return ref.state() == final
	}
	try = func() bool {
		if len(order) == n {
			return check()
		}
		for i := 0; i < n; i++ {
			if used[i] {
				continue
			}
			// i may come next only if no unused op returned before i was called
			ok := true
			for j := 0; j < n; j++ {
				if j != i && !used[j] && ops[j].ret < ops[i].call {
					ok = false
					break
				}
			}
			if !ok {
				continue
			}
			used[i] = true
			order = append(order, i)
			if try() {
				return true
			}
			order = order[:len(order)-1]
			used[i] = false
		}
		return false
	}
	return try()
}
