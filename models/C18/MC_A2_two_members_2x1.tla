---- MODULE MC_A2_two_members_2x1 ----
EXTENDS ClusterMutex, TLC
G == {"g1", "g2", "g3"}
HOf == ("g1" :> "h1" @@ "g2" :> "h1" @@ "g3" :> "h2")
MOf == ("h1" :> "m1" @@ "h2" :> "m2")
====
