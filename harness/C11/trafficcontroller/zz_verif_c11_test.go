//go:build verif

//go:debug asynctimerchan=0

package trafficcontroller

// C11 — hot update.  (a) old generation still usable: for every stateful filter kind, a pipeline
// generation that has been inherited from (and closed, as Pipeline.Inherit does) must still complete an
// in-flight request; (b) explicit-state search over create/update/apply/delete of pipelines and a traffic
// gate on the real TrafficController: after every operation every OTHER object still resolves and answers,
// Apply of an equal spec is a no-op; (c) request || ApplyPipeline || DeletePipeline || CreatePipeline under
// the controlled scheduler: no request fails because of the update and each runs on one pipeline generation.

import (
	"fmt"
	"net/http"
	"sort"
	"strings"
	"testing"
	"testing/synctest"

	"github.com/megaease/easegress/pkg/context"
	"github.com/megaease/easegress/pkg/filters"
	_ "github.com/megaease/easegress/pkg/filters/builder"
	_ "github.com/megaease/easegress/pkg/filters/certextractor"
	_ "github.com/megaease/easegress/pkg/filters/corsadaptor"
	_ "github.com/megaease/easegress/pkg/filters/fallback"
	_ "github.com/megaease/easegress/pkg/filters/headertojson"
	_ "github.com/megaease/easegress/pkg/filters/meshadaptor"
	_ "github.com/megaease/easegress/pkg/filters/mock"
	_ "github.com/megaease/easegress/pkg/filters/proxy"
	_ "github.com/megaease/easegress/pkg/filters/ratelimiter"
	_ "github.com/megaease/easegress/pkg/filters/remotefilter"
	_ "github.com/megaease/easegress/pkg/filters/requestadaptor"
	_ "github.com/megaease/easegress/pkg/filters/responseadaptor"
	_ "github.com/megaease/easegress/pkg/filters/validator"
	"github.com/megaease/easegress/pkg/logger"
	"github.com/megaease/easegress/pkg/object/pipeline"
	"github.com/megaease/easegress/pkg/protocols/httpprot"
	"github.com/megaease/easegress/pkg/supervisor"
	"github.com/megaease/easegress/pkg/tracing"
	"github.com/megaease/easegress/pkg/zzverif/mc"
	"github.com/megaease/easegress/pkg/zzverif/vrt"
)

var c11Super = supervisor.NewDefaultMock()

// ---- a recording filter kind and a traffic gate kind ----

var c11Log []string // "Init gen", "Inherit gen<-pred", "Close gen", "Handle gen"

type c11Spec struct {
	filters.BaseSpec `yaml:",inline"`
	Gen              string `yaml:"gen"`
}

type c11Filter struct {
	spec   *c11Spec
	closed bool
}

var c11Kind = &filters.Kind{
	Name: "VRec", Description: "verification recording filter", Results: []string{"closedGeneration"},
	DefaultSpec:    func() filters.Spec { return &c11Spec{} },
	CreateInstance: func(spec filters.Spec) filters.Filter { return &c11Filter{spec: spec.(*c11Spec)} },
}

func (f *c11Filter) Name() string        { return f.spec.Name() }
func (f *c11Filter) Kind() *filters.Kind { return c11Kind }
func (f *c11Filter) Spec() filters.Spec  { return f.spec }
func (f *c11Filter) Status() interface{} { return nil }
func (f *c11Filter) Init() {
	vrt.Yield("filter-init") // building a generation takes time: requests can run meanwhile
	c11Log = append(c11Log, "Init "+f.spec.Gen)
}
func (f *c11Filter) Close()              { f.closed = true; c11Log = append(c11Log, "Close "+f.spec.Gen) }
func (f *c11Filter) Inherit(prev filters.Filter) {
	vrt.Yield("filter-inherit") // building a generation takes time: requests can run meanwhile
	c11Log = append(c11Log, "Inherit "+f.spec.Gen+"<-"+prev.(*c11Filter).spec.Gen)
}
func (f *c11Filter) Handle(ctx *context.Context) string {
	vrt.Yield("filter-handle") // a request can be preempted between two filters of a pipeline
	c11Log = append(c11Log, "Handle "+f.spec.Name()+"@"+f.spec.Gen)
	if v := ctx.GetData("gens"); v != nil {
		*(v.(*[]string)) = append(*(v.(*[]string)), f.spec.Name()+"@"+f.spec.Gen)
	}
	return ""
}

type c11GateSpec struct {
	Gen string `yaml:"gen"`
}

type c11Gate struct {
	mapper context.MuxMapper
	gen    string
	closed bool
}

func (g *c11Gate) Category() supervisor.ObjectCategory { return supervisor.CategoryTrafficGate }
func (g *c11Gate) Kind() string                        { return "VGate" }
func (g *c11Gate) DefaultSpec() interface{}            { return &c11GateSpec{} }
func (g *c11Gate) Status() *supervisor.Status          { return &supervisor.Status{} }
func (g *c11Gate) Close()                              { g.closed = true }
func (g *c11Gate) Init(s *supervisor.Spec, m context.MuxMapper) {
	g.mapper, g.gen = m, s.ObjectSpec().(*c11GateSpec).Gen
}
func (g *c11Gate) Inherit(s *supervisor.Spec, prev supervisor.Object, m context.MuxMapper) {
	g.Init(s, m)
	prev.Close()
}

func init() {
	logger.InitNop()
	filters.Register(c11Kind)
	supervisor.Register(&c11Gate{})
}

func c11PipelineYAML(name, gen string, nfilters int) string {
	var b strings.Builder
	fmt.Fprintf(&b, "name: %s\nkind: Pipeline\nfilters:\n", name)
	for i := 0; i < nfilters; i++ {
		fmt.Fprintf(&b, "- name: f%d\n  kind: VRec\n  gen: %s\n", i, gen)
	}
	return b.String()
}

func c11Entity(y string) *supervisor.ObjectEntity {
	spec, err := c11Super.NewSpec(y)
	if err != nil {
		panic(fmt.Sprintf("harness spec rejected: %v\n%s", err, y))
	}
	e, err := c11Super.NewObjectEntityFromSpec(spec)
	if err != nil {
		panic(err)
	}
	return e
}

func c11NewTC() *TrafficController {
	spec, err := c11Super.NewSpec("name: tc\nkind: TrafficController\n")
	if err != nil {
		panic(err)
	}
	tc := &TrafficController{}
	tc.Init(spec)
	return tc
}

func c11Ctx() (*context.Context, *[]string) {
	stdr, _ := http.NewRequest("GET", "http://h/x", nil)
	req, _ := httpprot.NewRequest(stdr)
	req.FetchPayload(1 << 20)
	ctx := context.New(tracing.NoopSpan)
	ctx.SetInputRequest(req)
	gens := &[]string{}
	ctx.SetData("gens", gens)
	return ctx, gens
}

// ---- (b) BFS over TrafficController operations ----

type c11Op struct {
	kind, name, gen string
}

func (o c11Op) String() string { return fmt.Sprintf("%s(%s,%s)", o.kind, o.name, o.gen) }

type c11Sys struct {
	tc    *TrafficController
	ops   []c11Op
	model map[string]string // name -> gen of the live object
	inits map[string]int
}

func c11Ops() []c11Op {
	var ops []c11Op
	for _, n := range []string{"p1", "p2"} {
		for _, g := range []string{"g1", "g2"} {
			ops = append(ops, c11Op{"createPipeline", n, g}, c11Op{"updatePipeline", n, g}, c11Op{"applyPipeline", n, g})
		}
		ops = append(ops, c11Op{"deletePipeline", n, ""})
	}
	for _, g := range []string{"g1", "g2"} {
		ops = append(ops, c11Op{"createGate", "s1", g}, c11Op{"applyGate", "s1", g})
	}
	ops = append(ops, c11Op{"deleteGate", "s1", ""})
	return ops
}

func (s *c11Sys) NumOps() int         { return len(s.ops) }
func (s *c11Sys) OpName(i int) string { return s.ops[i].String() }
func (s *c11Sys) Enabled(i int) bool {
	o := s.ops[i]
	_, live := s.model[o.name]
	switch o.kind {
	case "createPipeline", "createGate":
		return !live
	case "updatePipeline", "deletePipeline", "deleteGate":
		return live
	}
	return true
}

func (s *c11Sys) Canon() string {
	var k []string
	for n, g := range s.model {
		k = append(k, n+"="+g)
	}
	sort.Strings(k)
	return strings.Join(k, ",")
}

func (s *c11Sys) Apply(c *mc.Ctx, i int) {
	o := s.ops[i]
	c11Log = nil
	var err error
	switch o.kind {
	case "createPipeline":
		_, err = s.tc.CreatePipeline("ns", c11Entity(c11PipelineYAML(o.name, o.gen, 2)))
	case "updatePipeline":
		_, err = s.tc.UpdatePipeline("ns", c11Entity(c11PipelineYAML(o.name, o.gen, 2)))
	case "applyPipeline":
		_, err = s.tc.ApplyPipeline("ns", c11Entity(c11PipelineYAML(o.name, o.gen, 2)))
	case "deletePipeline":
		err = s.tc.DeletePipeline("ns", o.name)
	case "createGate":
		_, err = s.tc.CreateTrafficGate("ns", c11Entity(fmt.Sprintf("name: %s\nkind: VGate\ngen: %s\n", o.name, o.gen)))
	case "applyGate":
		_, err = s.tc.ApplyTrafficGate("ns", c11Entity(fmt.Sprintf("name: %s\nkind: VGate\ngen: %s\n", o.name, o.gen)))
	case "deleteGate":
		err = s.tc.DeleteTrafficGate("ns", o.name)
	}
	if err != nil {
		c.Failf("operation-failed:"+o.kind, "%s on state {%s}: %v", o, s.Canon(), err)
	}
	before, hadBefore := s.model[o.name]
	if strings.HasPrefix(o.kind, "delete") {
		delete(s.model, o.name)
	} else {
		s.model[o.name] = o.gen
	}
	// unchanged spec => no lifecycle callback at all
	if strings.HasPrefix(o.kind, "apply") && hadBefore && before == o.gen && strings.HasSuffix(o.kind, "Pipeline") && len(c11Log) != 0 {
		c.Failf("apply-of-equal-spec-not-a-noop", "%s on an object that already has this spec caused %v", o, c11Log)
	}
	c.AddOutcome(o.kind)
	// every object of the model still resolves and answers, with the generation the model says
	for n, g := range s.model {
		if n == "s1" {
			ent, ok := s.tc.GetTrafficGate("ns", n)
			if !ok {
				c.Failf("object-unavailable:gate", "after %s: traffic gate %s not found (model {%s})", o, n, s.Canon())
			}
			gate := ent.Instance().(*c11Gate)
			if gate.gen != g || gate.closed {
				c.Failf("gate-wrong-generation", "after %s: gate has generation %s closed=%v, model %s", o, gate.gen, gate.closed, g)
			}
			// the gate reaches exactly the live pipelines through its mapper
			for _, pn := range []string{"p1", "p2"} {
				h, ok := gate.mapper.GetHandler(pn)
				_, live := s.model[pn]
				if ok != live {
					c.Failf("gate-mapper-resolution", "after %s: the gate's mapper resolves %s = %v, but the pipeline is live = %v (model {%s})", o, pn, ok, live, s.Canon())
				}
				if ok {
					ctx, gens := c11Ctx()
					h.Handle(ctx)
					if len(*gens) != 2 || (*gens)[0] != "f0@"+s.model[pn] || (*gens)[1] != "f1@"+s.model[pn] {
						c.Failf("request-through-gate-wrong-generation", "after %s: request to %s through the gate ran filters %v, model generation %s", o, pn, *gens, s.model[pn])
					}
				}
			}
			continue
		}
		ent, ok := s.tc.GetPipeline("ns", n)
		if !ok {
			c.Failf("object-unavailable:pipeline", "after %s: pipeline %s not found (model {%s})", o, n, s.Canon())
		}
		ctx, gens := c11Ctx()
		ent.Instance().(*pipeline.Pipeline).Handle(ctx)
		if len(*gens) != 2 || (*gens)[0] != "f0@"+g || (*gens)[1] != "f1@"+g {
			c.Failf("request-wrong-generation", "after %s: request to pipeline %s ran filters %v, model generation %s", o, n, *gens, g)
		}
	}
	for _, n := range []string{"p1", "p2"} {
		if _, live := s.model[n]; !live {
			if _, ok := s.tc.GetPipeline("ns", n); ok {
				c.Failf("deleted-object-still-there", "after %s: pipeline %s still resolvable", o, n)
			}
		}
	}
}

func TestVerifC11(t *testing.T) {
	synctest.Test(t, func(t *testing.T) {
		vrt.SetMode(vrt.ModeFree)
		env := mc.GetEnv()
		var jobs []mc.Job

		// (a) old generation still usable, per filter kind, through the real Pipeline.Inherit
		for _, ks := range vKindSpecs {
			ks := ks
			run := func(c *mc.Ctx) {
				change := c.Choose(2, "spec-changes") == 1
				nreq := c.Choose(3, "requests-before-update")
				second := ks.base
				if change {
					second = ks.alt
				}
				mk := func(filterYAML string) string {
					return "name: p\nkind: Pipeline\nfilters:\n- " + strings.Replace(strings.TrimSpace(filterYAML), "\n", "\n  ", -1) + "\n"
				}
				g1 := c11Entity(mk(ks.base))
				g1.InitWithRecovery(nil)
				p1 := g1.Instance().(*pipeline.Pipeline)
				var lastRes string
				var lastStatus int
				doReq := func(p *pipeline.Pipeline, who string) {
					ctx, _ := c11Ctx()
					defer func() {
						lastStatus = 0
						if r := ctx.GetOutputResponse(); r != nil {
							lastStatus = r.(*httpprot.Response).StatusCode()
						}
					}()
					func() {
						defer func() {
							if r := recover(); r != nil {
								c.Failf("old-generation-panics:"+ks.kind+":"+who, "%s: request on the %s generation panicked after the update: %v", ks.kind, who, r)
							}
						}()
						res := p.Handle(ctx)
						lastRes = res
						ok := res == ""
						for _, r := range filters.GetKind(ks.kind).Results {
							ok = ok || r == res
						}
						if !ok {
							c.Failf("undeclared-result:"+ks.kind, "%s: Handle returned %q which the kind does not declare", ks.kind, res)
						}
					}()
				}
				for i := 0; i < nreq; i++ {
					doReq(p1, "current")
				}
				g2 := c11Entity(mk(second))
				func() {
					defer func() {
						if r := recover(); r != nil {
							c.Failf("inherit-panics:"+ks.kind, "%s: Pipeline.Inherit panicked: %v", ks.kind, r)
						}
					}()
					g2.Instance().(*pipeline.Pipeline).Inherit(g2.Spec(), p1, nil)
				}()
				p2 := g2.Instance().(*pipeline.Pipeline)
				beforeRes, beforeStatus := lastRes, lastStatus
				doReq(p1, "old") // the in-flight request that still holds the old generation
				if nreq > 0 && ks.kind != "RateLimiter" && (lastRes != beforeRes || lastStatus != beforeStatus) {
					// (a RateLimiter answers differently once its permits are used up: not comparable)
					c.Failf("old-generation-answers-differently-after-the-update:"+ks.kind, "%s: before the update the generation answered result %q status %d, a request that still holds it after the update gets result %q status %d", ks.kind, beforeRes, beforeStatus, lastRes, lastStatus)
				}
				doReq(p2, "new")
				doReq(p1, "old")
				c.Outcome(fmt.Sprintf("%s-change%v", ks.kind, change))
			}
			jobs = append(jobs, mc.ExploreJob(mc.Options{Job: "oldgen/" + ks.kind, MaxDev: -1}, run))
		}

		// (a2) a filter keeps its name but changes its kind: the new generation must come up as if it were fresh
		kindChange := func(c *mc.Ctx) {
			a := c.Choose(len(vKindSpecs), "old-kind")
			b := c.Choose(len(vKindSpecs), "new-kind")
			if a == b {
				c.Outcome("same-kind")
				return
			}
			ka, kb := vKindSpecs[a], vKindSpecs[b]
			mk := func(filterYAML string) string {
				return "name: p\nkind: Pipeline\nfilters:\n- " + strings.Replace(strings.TrimSpace(filterYAML), "\n", "\n  ", -1) + "\n"
			}
			g1 := c11Entity(mk(ka.base))
			g1.InitWithRecovery(nil)
			p1 := g1.Instance().(*pipeline.Pipeline)
			if c.Choose(2, "request-before-update") == 1 {
				ctx, _ := c11Ctx()
				p1.Handle(ctx)
			}
			g2 := c11Entity(mk(kb.base))
			func() {
				defer func() {
					if r := recover(); r != nil {
						c.Failf("inherit-panics:filter-kind-change:to-"+kb.kind, "filter f changes kind %s -> %s: Pipeline.Inherit panicked: %v", ka.kind, kb.kind, r)
					}
				}()
				g2.Instance().(*pipeline.Pipeline).Inherit(g2.Spec(), p1, nil)
			}()
			p2 := g2.Instance().(*pipeline.Pipeline)
			fresh := c11Entity(mk(kb.base))
			fresh.InitWithRecovery(nil)
			handle := func(p *pipeline.Pipeline) (res string, status int, panicked interface{}) {
				ctx, _ := c11Ctx()
				defer func() { panicked = recover() }()
				res = p.Handle(ctx)
				if r := ctx.GetOutputResponse(); r != nil {
					status = r.(*httpprot.Response).StatusCode()
				}
				return
			}
			r2, s2, pn := handle(p2)
			rf, sf, _ := handle(fresh.Instance().(*pipeline.Pipeline))
			if pn != nil {
				c.Failf("new-generation-panics:filter-kind-change:to-"+kb.kind, "filter f changes kind %s -> %s: a request on the new generation panicked: %v", ka.kind, kb.kind, pn)
			}
			if r2 != rf || s2 != sf {
				c.Failf("new-generation-differs-from-fresh:filter-kind-change:to-"+kb.kind, "filter f changes kind %s -> %s: the updated pipeline answers result %q status %d, a fresh pipeline with the new spec answers %q status %d", ka.kind, kb.kind, r2, s2, rf, sf)
			}
			c.Outcome(ka.kind + "->" + kb.kind)
		}
		jobs = append(jobs, mc.ExploreJob(mc.Options{Job: "filter-kind-change", MaxDev: -1}, kindChange))

		// (b) BFS over TrafficController operations
		depth := 4
		if env.Thorough() {
			depth = 6
		}
		ops := c11Ops()
		jobs = append(jobs, mc.BFSJob(mc.BFSOptions{Job: "tc-bfs", MaxDepth: depth}, func() mc.Sys {
			return &c11Sys{tc: c11NewTC(), ops: ops, model: map[string]string{}}
		}))

		// (c) request || apply || delete || create under the scheduler
		maxDev := 2
		if env.Thorough() {
			maxDev = 3
		}
		sched := func(c *mc.Ctx) {
			tc := c11NewTC()
			tc.CreateTrafficGate("ns", c11Entity("name: s1\nkind: VGate\ngen: g1\n"))
			tc.CreatePipeline("ns", c11Entity(c11PipelineYAML("p1", "g1", 2)))
			tc.CreatePipeline("ns", c11Entity(c11PipelineYAML("p2", "g1", 1)))
			gateEnt, _ := tc.GetTrafficGate("ns", "s1")
			gate := gateEnt.Instance().(*c11Gate)
			sch := vrt.New(c)
			var fails []string
			request := func(who string) func() {
				return func() {
					h, ok := gate.mapper.GetHandler("p1")
					if !ok {
						fails = append(fails, who+": p1 not resolvable")
						return
					}
					ctx, gens := c11Ctx()
					func() {
						defer func() {
							if r := recover(); r != nil {
								fails = append(fails, fmt.Sprintf("%s: panic %v", who, r))
							}
						}()
						h.Handle(ctx)
					}()
					if len(*gens) != 2 {
						fails = append(fails, fmt.Sprintf("%s: ran %v (want both filters of one generation)", who, *gens))
					} else if (*gens)[0][3:] != (*gens)[1][3:] {
						fails = append(fails, fmt.Sprintf("%s: mixed generations %v", who, *gens))
					}
				}
			}
			sch.Go("request1", request("request1"))
			sch.Go("request2", request("request2"))
			viaUpdate := c.Choose(2, "update-instead-of-apply") == 1
			sch.Go("apply-p1", func() {
				var err error
				if viaUpdate {
					_, err = tc.UpdatePipeline("ns", c11Entity(c11PipelineYAML("p1", "g2", 2)))
				} else {
					_, err = tc.ApplyPipeline("ns", c11Entity(c11PipelineYAML("p1", "g2", 2)))
				}
				if err != nil {
					fails = append(fails, "apply/update: "+err.Error())
				}
			})
			sch.Go("delete-p2-create-p3", func() {
				if err := tc.DeletePipeline("ns", "p2"); err != nil {
					fails = append(fails, "delete: "+err.Error())
				}
				if _, err := tc.CreatePipeline("ns", c11Entity(c11PipelineYAML("p3", "g1", 1))); err != nil {
					fails = append(fails, "create: "+err.Error())
				}
			})
			if msg := sch.Run(); msg != "" {
				c.Failf("scheduler:"+msg[:8], "%s\n%s", msg, sch.TraceString())
			}
			c.Note("schedule: %s", sch.TraceString())
			if len(fails) > 0 {
				c.Failf("request-failed-during-update", "%v\nschedule: %s", fails, sch.TraceString())
			}
			// after the update has been applied every new request sees the new generation
			h, _ := gate.mapper.GetHandler("p1")
			ctx, gens := c11Ctx()
			h.Handle(ctx)
			if len(*gens) != 2 || (*gens)[0] != "f0@g2" || (*gens)[1] != "f1@g2" {
				c.Failf("new-request-sees-old-generation", "after ApplyPipeline returned a new request ran %v", *gens)
			}
			c.Outcome("ok")
		}
		jobs = append(jobs, mc.ExploreJob(mc.Options{Job: "tc-sched", MaxDev: maxDev}, sched))
		mc.RunJobs("C11", jobs)
	})
}
