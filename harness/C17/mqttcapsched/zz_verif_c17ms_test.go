//go:build verif

//go:debug asynctimerchan=0

package mqttproxy

// C17 (MQTT part, concurrency) — two or three CONNECTs for different client ids race for the last slot(s)
// of maxAllowedConnection on the real broker whose sync primitives are gated (vsync/vatomic in broker.go):
// every schedule at gate granularity up to the preemption bound.  At no quiescent point may more clients
// than the cap be connected, and no more CONNACK-accepted than the cap.

import (
	"fmt"
	"testing"
	"testing/synctest"

	"github.com/eclipse/paho.mqtt.golang/packets"
	"github.com/megaease/easegress/pkg/zzverif/mc"
	"github.com/megaease/easegress/pkg/zzverif/vrt"
)

func TestVerifC17mqttsched(t *testing.T) {
	synctest.Test(t, func(t *testing.T) {
		vrt.SetMode(vrt.ModeFree)
		env := mc.GetEnv()
		maxDev := 2
		if env.Thorough() {
			maxDev = 3
		}
		var jobs []mc.Job
		for _, sc := range []struct{ capN, n int }{{1, 2}, {2, 3}, {1, 3}} {
			sc := sc
			run := func(c *mc.Ctx) {
				vb := vNewBroker(&Spec{MaxAllowedConnection: sc.capN})
				acks := make([]byte, sc.n)
				conns := make([]*vClient, sc.n)
				sch := vrt.New(c)
				for i := 0; i < sc.n; i++ {
					i := i
					sch.Go(fmt.Sprintf("client%d", i), func() {
						cl := vb.dial(fmt.Sprintf("id%d", i))
						conns[i] = cl
						p := packets.NewControlPacket(packets.Connect).(*packets.ConnectPacket)
						p.ClientIdentifier, p.CleanSession, p.ProtocolName, p.ProtocolVersion = cl.id, false, "MQTT", 4
						acks[i] = 0xff
						if err := p.Write(cl.conn); err != nil {
							return
						}
						if r, err := packets.ReadPacket(cl.conn); err == nil {
							if a, ok := r.(*packets.ConnackPacket); ok {
								acks[i] = a.ReturnCode
							}
						}
					})
				}
				if msg := sch.Run(); msg != "" {
					c.Failf("scheduler:"+msg[:8], "%s\n%s", msg, sch.TraceString())
				}
				synctest.Wait()
				c.Note("schedule: %s", sch.TraceString())
				accepted := 0
				for _, a := range acks {
					if a == packets.Accepted {
						accepted++
					}
				}
				n := len(vb.b.currentClients())
				if accepted > sc.capN || n > sc.capN {
					c.Failf("concurrent-connects-exceed-cap", "cap %d, %d concurrent CONNECTs: %d accepted (CONNACK codes %v), broker has %d connected clients\nschedule: %s", sc.capN, sc.n, accepted, acks, n, sch.TraceString())
				}
				if accepted < sc.capN {
					c.Failf("free-slot-refused", "cap %d, %d concurrent CONNECTs: only %d accepted (codes %v)\nschedule: %s", sc.capN, sc.n, accepted, acks, sch.TraceString())
				}
				for i, a := range acks {
					if a != packets.Accepted && a != packets.ErrRefusedServerUnavailable {
						c.Failf("refused-with-wrong-code", "client %d got CONNACK %d", i, a)
					}
				}
				c.Outcome(fmt.Sprintf("acks=%v", acks))
				for _, cl := range conns {
					if cl != nil {
						cl.conn.Close()
					}
				}
				vb.close()
			}
			jobs = append(jobs, mc.ExploreJob(mc.Options{Job: fmt.Sprintf("mqtt-race/cap%d-%dclients", sc.capN, sc.n), MaxDev: maxDev}, run))
		}
		mc.RunJobs("C17", jobs)
	})
}
