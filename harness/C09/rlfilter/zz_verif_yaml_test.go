//go:build verif

package ratelimiter

import "gopkg.in/yaml.v2"

func yamlUnmarshal(s string, v interface{}) error { return yaml.Unmarshal([]byte(s), v) }
