//go:build verif

package httpserver

// C12 — route cache transparency: every request sequence on a mux with cacheSize n>0 must
// produce, request by request, what the cache-less mux produces for that request.

import (
	"sort"
	"fmt"
	"strings"
	"testing"

	"github.com/megaease/easegress/pkg/zzverif/mc"
)

const (
	c12Allowed = "1.2.3.4"
	c12Denied  = "5.6.7.8"
	c12Filter  = "{blockIPs: [5.6.7.8]}"
)

type c12Config struct {
	name  string
	rules []vRule
	extra string
	hasIP bool
	reqs  []vReq // nil: the standard request alphabet
}

func c12RuleSets() map[string][]vRule {
	x1 := []vHdr{{Key: "X", Values: []string{"1"}}}
	return map[string][]vRule{
		"hdr-before-plain":    {{Entries: []vEntry{{Path: "/p", Headers: x1, Backend: "p1"}, {Path: "/p", Backend: "p2"}}}},
		"plain-before-hdr":    {{Entries: []vEntry{{Path: "/p", Backend: "p2"}, {Path: "/p", Headers: x1, Backend: "p1"}}}},
		"method-before-plain": {{Entries: []vEntry{{Path: "/p", Methods: []string{"PUT"}, Backend: "p1"}, {Path: "/p", Backend: "p2"}}}},
		"method-only":         {{Entries: []vEntry{{Path: "/p", Methods: []string{"PUT"}, Backend: "p1"}}}},
		"host-rules":          {{Host: "a", Entries: []vEntry{{Path: "/p", Backend: "p1"}}}, {Entries: []vEntry{{Path: "/p", Backend: "p2"}}}},
		"host-rewrite":        {{Host: "aP", Entries: []vEntry{{Prefix: "/", Rewrite: "/r", Backend: "p1"}}}, {Host: "a", Entries: []vEntry{{Path: "/p", Headers: x1, Backend: "p2"}}}},
		"hdr-only":            {{Entries: []vEntry{{Path: "/p", Headers: x1, Backend: "p1"}}}},
		"mixed":               {{Entries: []vEntry{{Prefix: "/p", Methods: []string{"PUT"}, Backend: "p1"}, {Path: "/q", Headers: x1, Backend: "p2"}, {Path: "/q", Rewrite: "/r", Backend: "p3"}}}},
		"missing-backend":     {{Entries: []vEntry{{Path: "/p", Backend: "missing"}, {Path: "/q", Backend: "p2"}}}},
		"host-then-any":       {{Host: "a", Entries: []vEntry{{Path: "/q", Backend: "p1"}}}, {Entries: []vEntry{{Path: "/p", Backend: "p2"}, {Path: "/q", Methods: []string{"PUT"}, Backend: "p3"}}}},
	}
}

func c12Configs() []c12Config {
	var cs []c12Config
	rs := c12RuleSets()
	names := make([]string, 0, len(rs))
	for n := range rs {
		names = append(names, n)
	}
	sortStrings(names)
	for _, n := range names {
		base := rs[n]
		cp := func() []vRule {
			out := make([]vRule, len(base))
			for i, r := range base {
				out[i] = r
				out[i].Entries = append([]vEntry{}, r.Entries...)
			}
			return out
		}
		cs = append(cs, c12Config{name: n + "/noip", rules: cp()})
		cs = append(cs, c12Config{name: n + "/ip-server", rules: cp(), extra: "ipFilter: " + c12Filter + "\n", hasIP: true})
		r := cp()
		for i := range r {
			r[i].IPFilter = c12Filter
		}
		cs = append(cs, c12Config{name: n + "/ip-rules", rules: r, hasIP: true})
		r = cp()
		r[0].IPFilter = c12Filter
		cs = append(cs, c12Config{name: n + "/ip-rule0", rules: r, hasIP: true})
		r = cp()
		for i := range r {
			for j := range r[i].Entries {
				r[i].Entries[j].IPFilter = c12Filter
			}
		}
		cs = append(cs, c12Config{name: n + "/ip-paths", rules: r, hasIP: true})
		r = cp()
		r[len(r)-1].Entries[len(r[len(r)-1].Entries)-1].IPFilter = c12Filter
		cs = append(cs, c12Config{name: n + "/ip-lastpath", rules: r, hasIP: true})
		// the first rule denies the client, and some OTHER level carries a filter that does not (so that the matching
		// path has a filter chain of its own which does not contain the first rule's filter)
		const other = "{blockIPs: [9.9.9.9]}"
		if len(base) > 1 {
			r = cp()
			r[0].IPFilter, r[1].IPFilter = c12Filter, other
			cs = append(cs, c12Config{name: n + "/ip-rule0+other-on-rule1", rules: r, hasIP: true})
			r = cp()
			r[0].IPFilter = c12Filter
			for j := range r[1].Entries {
				r[1].Entries[j].IPFilter = other
			}
			cs = append(cs, c12Config{name: n + "/ip-rule0+other-on-rule1-paths", rules: r, hasIP: true})
		}
		r = cp()
		r[0].IPFilter = c12Filter
		cs = append(cs, c12Config{name: n + "/ip-rule0+other-on-server", rules: r, extra: "ipFilter: " + other + "\n", hasIP: true})
	}
	// systematic family: every rule set with 2 entries (in one rule or in two rules) from a small entry
	// menu x host matchers, without ip filters (header-conditioned and unconditional entries in any arrangement)
	x1 := []vHdr{{Key: "X", Values: []string{"1"}}}
	menu := []vEntry{
		{Path: "/p", Backend: "p1"},
		{Path: "/p", Headers: x1, Backend: "p2"},
		{Path: "/p", Methods: []string{"PUT"}, Backend: "p3"},
		{Prefix: "/", Rewrite: "/r", Backend: "p1"},
		{Path: "/q", Headers: x1, Methods: []string{"PUT"}, Backend: "p2"},
	}
	// spelling variants of every key component: requests that agree up to letter case of the host, a port, letter case
	// or a trailing slash of the path are different requests whenever the rules tell them apart
	var variants []vReq
	for _, host := range []string{"a", "A", "a:80"} {
		for _, p := range []string{"/p", "/P", "/p/"} {
			variants = append(variants, vReq{Host: host, Method: "PUT", Path: p, Remote: c12Allowed})
		}
	}
	for n, rules := range map[string][]vRule{
		"host-exact":       {{Host: "a", Entries: []vEntry{{Path: "/p", Backend: "p1"}}}, {Entries: []vEntry{{Prefix: "/p", Rewrite: "/r", Backend: "p2"}}}},
		"host-upper":       {{Host: "A", Entries: []vEntry{{Path: "/p", Backend: "p1"}}}, {Host: "a", Entries: []vEntry{{Prefix: "/", Backend: "p2"}}}},
		"host-regexp":      {{HostRegexp: "^a$", Entries: []vEntry{{Path: "/p", Backend: "p1"}, {Path: "/P", Backend: "p3"}}}},
		"path-case-prefix": {{Entries: []vEntry{{Path: "/P", Backend: "p1"}, {Prefix: "/p", Backend: "p2"}}}},
	} {
		cs = append(cs, c12Config{name: "variants/" + n, rules: rules, reqs: variants})
	}
	sort.Slice(cs, func(i, j int) bool { return cs[i].name < cs[j].name })
	hosts := []vRule{{}, {Host: "a"}, {HostRegexp: "^a"}}
	for i, e1 := range menu {
		for j, e2 := range menu {
			for hi, h1 := range hosts {
				r := h1
				r.Entries = []vEntry{e1, e2}
				cs = append(cs, c12Config{name: fmt.Sprintf("sys/one-rule-h%d-e%d-e%d/noip", hi, i, j), rules: []vRule{r}})
				for hj, h2 := range hosts {
					r1, r2 := h1, h2
					r1.Entries = []vEntry{e1}
					r2.Entries = []vEntry{e2}
					cs = append(cs, c12Config{name: fmt.Sprintf("sys/two-rules-h%d-e%d-h%d-e%d/noip", hi, i, hj, j), rules: []vRule{r1, r2}})
				}
			}
		}
	}
	return cs
}

func sortStrings(s []string) {
	for i := 1; i < len(s); i++ {
		for j := i; j > 0 && s[j] < s[j-1]; j-- {
			s[j], s[j-1] = s[j-1], s[j]
		}
	}
}

func c12Requests(withIP bool) []vReq {
	var rs []vReq
	clients := []string{c12Allowed}
	if withIP {
		clients = append(clients, c12Denied)
	}
	for _, cl := range clients {
		for _, host := range []string{"a", "aP"} {
			for _, m := range []string{"PUT", "UT"} {
				for _, p := range []string{"/p", "/q"} {
					for _, x := range []string{"", "1"} {
						q := vReq{Host: host, Method: m, Path: p, Remote: cl}
						if x != "" {
							q.Hdr = [][2]string{{"X", x}}
						}
						rs = append(rs, q)
					}
				}
			}
		}
	}
	return rs
}

// c12Key names the class of a transparency violation.
func c12Key(reqs []vReq, upto int, want, got vObs) string {
	q := reqs[upto]
	cls := fmt.Sprintf("uncached=%d,cached=%d", want.Status, got.Status)
	if want.Status == got.Status {
		cls = fmt.Sprintf("same-status-%d-other-backend-or-path", want.Status)
	}
	// which earlier request differs from q in what?
	cause := "none"
	for i := upto - 1; i >= 0; i-- {
		p := reqs[i]
		if p.Host+p.Method+p.Path != q.Host+q.Method+q.Path {
			continue
		}
		switch {
		case p.Host != q.Host || p.Method != q.Method:
			cause = "key-collision(host+method boundary)"
		case fmt.Sprint(p.Hdr) != fmt.Sprint(q.Hdr) && p.Remote == q.Remote:
			cause = "header-differs"
		case p.Remote != q.Remote && fmt.Sprint(p.Hdr) == fmt.Sprint(q.Hdr):
			cause = "client-differs"
		case p.Remote != q.Remote:
			cause = "header+client-differ"
		default:
			cause = "identical-request"
		}
		break
	}
	return cls + ":" + cause
}

func TestVerifC12(t *testing.T) {
	env := mc.GetEnv()
	seqLen := 3
	sizes := []int{1, 2, 64}
	var jobs []mc.Job
	for _, cfg := range c12Configs() {
		cfg := cfg
		reqs := c12Requests(cfg.hasIP)
		if cfg.reqs != nil {
			reqs = cfg.reqs
		}
		for _, size := range sizes {
			size := size
			if strings.HasPrefix(cfg.name, "sys/") && size == 2 {
				continue
			}
			L := seqLen
			if env.Thorough() && (size <= 2 || !cfg.hasIP) && !strings.HasPrefix(cfg.name, "sys/") {
				L = 4
			}
			name := fmt.Sprintf("%s/cache%d", cfg.name, size)
			var twinObs []vObs
			var cachedSpec string
			var rigProto *vRig
			setup := func(c *mc.Ctx) {
				if twinObs != nil {
					return
				}
				y0 := vServerYAML(cfg.rules, cfg.extra)
				twin, err := newVRig(y0)
				if err != nil {
					c.Failf("spec-rejected", "%v\n%s", err, y0)
				}
				for _, q := range reqs {
					twinObs = append(twinObs, twin.do(q))
				}
				cachedSpec = vServerYAML(cfg.rules, cfg.extra+fmt.Sprintf("cacheSize: %d\n", size))
				rigProto, err = newVRig(cachedSpec)
				if err != nil {
					c.Failf("spec-rejected", "%v\n%s", err, cachedSpec)
				}
			}
			run := func(c *mc.Ctx) {
				setup(c)
				// fresh cache: reload builds a new muxInstance (and a new ARC cache)
				rigProto.m.reload(rigProto.m.inst.Load().(*muxInstance).superSpec, rigProto)
				seq := make([]vReq, 0, L)
				idx := make([]int, 0, L)
				for i := 0; i < L; i++ {
					k := c.Choose(len(reqs), "req")
					q := reqs[k]
					seq = append(seq, q)
					idx = append(idx, k)
					c.Note("%s", q)
					got := rigProto.do(q)
					want := twinObs[k]
					if got.Status != want.Status || got.Backend != want.Backend || got.Path != want.Path {
						c.Failf(c12Key(seq, i, want, got), "config %s cacheSize %d: request #%d %s\n  without cache: %s\n  with cache:    %s\n  earlier requests: %v\nspec:\n%s",
							cfg.name, size, i+1, q, want, got, seq[:i], cachedSpec)
					}
					c.AddOutcome(fmt.Sprint(want.Status))
				}
			}
			jobs = append(jobs, mc.ExploreJob(mc.Options{Job: name, MaxDev: -1}, run))
		}
	}
	mc.RunJobs("C12", jobs)
}
