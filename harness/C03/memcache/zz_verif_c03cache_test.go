//go:build verif

package proxy

// C03 with a pool-level memoryCache — the response a client gets for (method, host, path) must be the backend's response
// for that key (status, end-to-end headers, body bytes) on EVERY request of a history, also when it is served from the
// cache and also when a filter that runs after the Proxy (ResponseAdaptor-like: replaces the body, relabels
// Content-Encoding / Content-Length, adds a header) has rewritten an earlier response of the same key. The backend is
// the stubbed fnSendRequest and answers deterministically per (method, path); histories of 3 requests over
// 2 paths (one answered 404) x 2 methods x request Cache-Control x what the later filter did to the previous response.

import (
	"bytes"
	"fmt"
	"io"
	"net/http"
	"sort"
	"strings"
	"testing"

	"github.com/megaease/easegress/pkg/context"
	"github.com/megaease/easegress/pkg/protocols/httpprot"
	"github.com/megaease/easegress/pkg/tracing"
	"github.com/megaease/easegress/pkg/zzverif/mc"
)

func c03cacheHdr(h http.Header) string {
	var ks []string
	for k, v := range h {
		ks = append(ks, k+"="+strings.Join(v, "|"))
	}
	sort.Strings(ks)
	return strings.Join(ks, ";")
}

func TestVerifC03cache(t *testing.T) {
	backend := func(method, path string) (int, http.Header, []byte) {
		body := []byte(strings.Repeat(method+" "+path+" payload;", 7))
		h := http.Header{"Content-Type": {"text/plain"}, "X-Backend": {method + path}, "Etag": {`"` + path + `"`}}
		status := 200
		if path == "/missing" {
			status = 404
			body = []byte("no " + path)
		}
		return status, h, body
	}
	run := func(c *mc.Ctx) {
		y := "name: proxy\nkind: Proxy\npools:\n- servers:\n  - url: http://10.0.0.1:8080\n  memoryCache:\n    expiration: 1h\n    maxEntryBytes: 4096\n    codes: [200, 404]\n    methods: [GET]\n"
		p, err := vNewProxy(y, nil)
		if err != nil {
			c.Failf("spec-rejected", "%v\n%s", err, y)
		}
		defer p.Close()
		sent := 0
		fnSendRequest = func(r *http.Request, client *http.Client) (*http.Response, error) {
			sent++
			st, h, b := backend(r.Method, r.URL.Path)
			return &http.Response{StatusCode: st, Header: h.Clone(), Body: io.NopCloser(bytes.NewReader(b)), ContentLength: int64(len(b))}, nil
		}
		paths := []string{"/a", "/missing"}
		hist := ""
		for i := 0; i < 3; i++ {
			method := []string{"GET", "POST"}[c.Choose(2, "method")]
			path := paths[c.Choose(len(paths), "path")]
			cc := []string{"", "no-cache", "no-store"}[c.Choose(3, "request-cache-control")]
			stdr, _ := http.NewRequest(method, "http://front.example"+path, nil)
			if cc != "" {
				stdr.Header.Set("Cache-Control", cc)
			}
			req, _ := httpprot.NewRequest(stdr)
			req.FetchPayload(1 << 20)
			ctx := context.New(tracing.NoopSpan)
			ctx.SetInputRequest(req)
			before := sent
			res := p.Handle(ctx)
			hist += fmt.Sprintf(" %s %s cc=%q", method, path, cc)
			r, _ := ctx.GetOutputResponse().(*httpprot.Response)
			if res != "" || r == nil {
				c.Failf("cache:request-failed", "history%s: result %q", hist, res)
			}
			wst, wh, wb := backend(method, path)
			gh := r.HTTPHeader().Clone()
			gh.Del("Content-Length")
			if r.StatusCode() != wst || !bytes.Equal(r.RawPayload(), wb) || c03cacheHdr(gh) != c03cacheHdr(wh) {
				c.Failf("cache:response-differs-from-the-backends", "history%s: got %d [%s] %q\nbackend answers this key with %d [%s] %q", hist, r.StatusCode(), c03cacheHdr(gh), r.RawPayload(), wst, c03cacheHdr(wh), wb)
			}
			if cl := r.HTTPHeader().Get("Content-Length"); cl != "" && cl != fmt.Sprint(len(wb)) {
				c.Failf("cache:content-length", "history%s: Content-Length %s for a body of %d bytes", hist, cl, len(wb))
			}
			// RFC 7234 5.2.1: only no-cache forbids answering from the cache (no-store forbids storing)
			if (method != "GET" || cc == "no-cache") && sent == before {
				c.Failf("cache:served-from-cache-against-the-request", "history%s: a %s request with Cache-Control %q was not forwarded", hist, method, cc)
			}
			// what a filter after the Proxy does to this response
			switch c.Choose(4, "later-filter") {
			case 1:
				r.HTTPHeader().Set("Content-Encoding", "gzip")
				r.HTTPHeader().Set("Content-Length", "3")
				r.SetPayload([]byte("zip"))
				hist += " [later filter compressed]"
			case 2:
				r.HTTPHeader().Add("X-Backend", "rewritten")
				r.HTTPHeader().Del("Etag")
				hist += " [later filter rewrote headers]"
			case 3:
				r.SetStatusCode(299)
				r.SetPayload([]byte("replaced"))
				hist += " [later filter replaced status and body]"
			}
			c.Outcome(fmt.Sprintf("%s status=%d forwarded=%v", method, wst, sent != before))
		}
	}
	mc.RunJobs("C03", []mc.Job{mc.ExploreJob(mc.Options{Job: "memory-cache", MaxDev: -1}, run)})
}
