//go:build verif

package globalfilter

// C11, GlobalFilter hot update — every ordered pair of GlobalFilter specs (each side absent / [x] / [y] / [x,y], filter
// names shared between the before and the after side) through Init(A), optional request, B.Inherit(A), request on B, and
// optionally a request that still holds generation A: the update must not panic, a side that exists in both generations is
// handed over to the SAME side of the new generation (a new filter inherits from the old filter of that name on that side,
// every old filter of that side is closed exactly once, nothing is closed twice), and every request runs exactly the
// before- and after-flows of the generation it holds.

import (
	"fmt"
	"strings"
	"testing"

	"github.com/megaease/easegress/pkg/context"
	"github.com/megaease/easegress/pkg/filters"
	"github.com/megaease/easegress/pkg/logger"
	"github.com/megaease/easegress/pkg/object/pipeline"
	"github.com/megaease/easegress/pkg/protocols/httpprot"
	"github.com/megaease/easegress/pkg/supervisor"
	"github.com/megaease/easegress/pkg/tracing"
	"github.com/megaease/easegress/pkg/zzverif/mc"
)

func init() { logger.InitNop() }

type lifeSpec struct {
	filters.BaseSpec `yaml:",inline"`
	Tag              string `yaml:"tag" jsonschema:"omitempty"`
}

type lifeFilter struct {
	spec   *lifeSpec
	id     int
	from   int // id of the instance inherited from, 0 = Init
	inits  int
	closes int
}

var (
	lifeAll []*lifeFilter
	lifeInv []string
)

var lifeKind = &filters.Kind{
	Name: "VLife", Description: "verification lifecycle filter", Results: []string{},
	DefaultSpec: func() filters.Spec { return &lifeSpec{} },
	CreateInstance: func(spec filters.Spec) filters.Filter {
		f := &lifeFilter{spec: spec.(*lifeSpec), id: len(lifeAll) + 1}
		lifeAll = append(lifeAll, f)
		return f
	},
}

func init() { filters.Register(lifeKind) }

func (f *lifeFilter) Name() string        { return f.spec.Name() }
func (f *lifeFilter) Kind() *filters.Kind { return lifeKind }
func (f *lifeFilter) Spec() filters.Spec  { return f.spec }
func (f *lifeFilter) Init()               { f.inits++ }
func (f *lifeFilter) Inherit(prev filters.Filter) {
	f.inits++
	f.from = prev.(*lifeFilter).id
}
func (f *lifeFilter) Status() interface{} { return nil }
func (f *lifeFilter) Close() {
	f.closes++
	if f.closes > 1 {
		panic("close of closed filter (like Proxy: close of closed channel)")
	}
}
func (f *lifeFilter) Handle(ctx *context.Context) string {
	lifeInv = append(lifeInv, f.spec.Tag)
	return ""
}

func lifeGF(gen string, before, after []string) string {
	side := func(key, s string, names []string) string {
		if names == nil {
			return ""
		}
		y := key + ":\n  filters:\n"
		for _, n := range names {
			y += fmt.Sprintf("  - name: %s\n    kind: VLife\n    tag: %s.%s.%s\n", n, gen, s, n)
		}
		return y
	}
	return "name: gf\nkind: GlobalFilter\n" + side("beforePipeline", "before", before) + side("afterPipeline", "after", after)
}

func TestVerifC11gf(t *testing.T) {
	menu := [][]string{nil, {"x"}, {"y"}, {"x", "y"}}
	mainSS, err := supervisor.NewSpec("name: main\nkind: Pipeline\nfilters:\n- name: m\n  kind: VLife\n  tag: main\n")
	if err != nil {
		t.Fatal(err)
	}
	run := func(c *mc.Ctx) {
		lifeAll, lifeInv = nil, nil
		var pick [4][]string
		for i, tag := range []string{"A.before", "A.after", "B.before", "B.after"} {
			pick[i] = menu[c.Choose(len(menu), tag)]
		}
		yA, yB := lifeGF("A", pick[0], pick[1]), lifeGF("B", pick[2], pick[3])
		desc := yA + "--- updated to ---\n" + yB
		ssA, err := supervisor.NewSpec(yA)
		if err != nil {
			c.Failf("gfupdate:spec-rejected", "%v\n%s", err, yA)
		}
		ssB, err := supervisor.NewSpec(yB)
		if err != nil {
			c.Failf("gfupdate:spec-rejected", "%v\n%s", err, yB)
		}
		main := &pipeline.Pipeline{}
		main.Init(mainSS, nil)
		want := func(gen string, b, a []string) string {
			var w []string
			for _, n := range b {
				w = append(w, gen+".before."+n)
			}
			w = append(w, "main")
			for _, n := range a {
				w = append(w, gen+".after."+n)
			}
			return strings.Join(w, " ")
		}
		request := func(what string, gf *GlobalFilter, gen string, b, a []string) {
			lifeInv = nil
			ctx := context.New(tracing.NoopSpan)
			req, _ := httpprot.NewRequest(nil)
			ctx.SetInputRequest(req)
			func() {
				defer func() {
					if p := recover(); p != nil {
						c.Failf("gfupdate:request-panicked", "%s: %v\n%s", what, p, desc)
					}
				}()
				gf.Handle(ctx, main)
			}()
			if got := strings.Join(lifeInv, " "); got != want(gen, b, a) {
				c.Failf("gfupdate:request-not-handled-by-its-generation", "%s ran [%s], its generation's flows are [%s]\n%s", what, got, want(gen, b, a), desc)
			}
		}
		a := &GlobalFilter{}
		a.Init(ssA)
		if c.Choose(2, "request-on-A") == 1 {
			request("request before the update", a, "A", pick[0], pick[1])
		}
		nA := len(lifeAll)
		b := &GlobalFilter{}
		func() {
			defer func() {
				if p := recover(); p != nil {
					c.Failf("gfupdate:update-panicked", "Inherit panicked: %v\n%s", p, desc)
				}
			}()
			b.Inherit(ssB, a)
		}()
		request("request after the update", b, "B", pick[2], pick[3])
		if c.Choose(2, "request-still-holding-A") == 1 {
			request("request that still holds the old generation", a, "A", pick[0], pick[1])
		}
		byID := map[int]*lifeFilter{}
		for _, f := range lifeAll {
			byID[f.id] = f
		}
		for _, f := range lifeAll[:nA] { // generation A (and main)
			if f.spec.Tag == "main" {
				continue
			}
			side := strings.Split(f.spec.Tag, ".")[1]
			both := (side == "before" && pick[2] != nil) || (side == "after" && pick[3] != nil)
			if f.closes > 1 || (both && f.closes != 1) {
				c.Failf("gfupdate:old-filter-closed-"+fmt.Sprint(f.closes)+"-times", "old filter %s closed %d times after the update (its side exists in the new generation: %v)\n%s", f.spec.Tag, f.closes, both, desc)
			}
		}
		for _, f := range lifeAll[nA:] {
			if f.inits != 1 {
				c.Failf("gfupdate:new-filter-initialised-"+fmt.Sprint(f.inits)+"-times", "%s\n%s", f.spec.Tag, desc)
			}
			parts := strings.Split(f.spec.Tag, ".")
			old := pick[0]
			if parts[1] == "after" {
				old = pick[1]
			}
			hasOld := false
			for _, n := range old {
				hasOld = hasOld || n == parts[2]
			}
			wantFrom := ""
			if hasOld {
				wantFrom = "A." + parts[1] + "." + parts[2]
			}
			gotFrom := ""
			if f.from != 0 {
				gotFrom = byID[f.from].spec.Tag
			}
			if gotFrom != wantFrom {
				c.Failf("gfupdate:inherited-from-the-wrong-filter", "new filter %s inherited from %q, expected %q\n%s", f.spec.Tag, gotFrom, wantFrom, desc)
			}
			if f.closes != 0 {
				c.Failf("gfupdate:new-filter-closed", "%s\n%s", f.spec.Tag, desc)
			}
		}
		c.Outcome(fmt.Sprintf("A=%v/%v B=%v/%v", pick[0] != nil, pick[1] != nil, pick[2] != nil, pick[3] != nil))
	}
	mc.RunJobs("C11", []mc.Job{mc.ExploreJob(mc.Options{Job: "globalfilter-update", MaxDev: -1}, run)})
}
