module github.com/megaease/easegress

go 1.17

require (
	github.com/ArthurHlt/go-eureka-client v1.1.0
	github.com/Shopify/sarama v1.34.0
	github.com/alecthomas/jsonschema v0.0.0-20210526225647-edb03dcab7bc
	github.com/bytecodealliance/wasmtime-go v0.33.1
	github.com/eclipse/paho.mqtt.golang v1.4.1
	github.com/fatih/color v1.13.0
	github.com/fsnotify/fsnotify v1.5.4
	github.com/ghodss/yaml v1.0.0
	github.com/go-chi/chi/v5 v5.0.7
	github.com/go-task/slim-sprig v0.0.0-20210107165309-348f09dbbbc0
	github.com/go-zookeeper/zk v1.0.2
	github.com/goccy/go-json v0.9.6
	github.com/golang-jwt/jwt v3.2.1+incompatible
	github.com/google/uuid v1.3.0
	github.com/gorilla/websocket v1.5.0
	github.com/hashicorp/consul/api v1.13.0
	github.com/hashicorp/golang-lru v0.5.4
	github.com/libdns/alidns v1.0.2-x2
	github.com/libdns/azure v0.2.0
	github.com/libdns/cloudflare v0.1.0
	github.com/libdns/digitalocean v0.0.0-20210310230526-186c4ebd2215
	github.com/libdns/dnspod v0.0.3
	github.com/libdns/duckdns v0.1.1
	github.com/libdns/hetzner v0.0.1
	github.com/libdns/libdns v0.2.1
	github.com/libdns/route53 v1.1.2
	github.com/libdns/vultr v0.0.0-20211122184636-cd4cb5c12e51
	github.com/lucas-clemente/quic-go v0.27.2
	github.com/megaease/easemesh-api v1.3.5
	github.com/megaease/grace v1.0.0
	github.com/mitchellh/mapstructure v1.5.0
	github.com/nacos-group/nacos-sdk-go v1.1.0
	github.com/openzipkin/zipkin-go v0.4.0
	github.com/patrickmn/go-cache v2.1.0+incompatible
	github.com/phayes/freeport v0.0.0-20180830031419-95f893ade6f2
	github.com/rcrowley/go-metrics v0.0.0-20201227073835-cf1acfcdf475
	github.com/rs/cors v1.8.2
	github.com/spf13/cobra v1.5.0
	github.com/spf13/pflag v1.0.5
	github.com/spf13/viper v1.12.0
	github.com/stretchr/testify v1.8.0
	github.com/tcnksm/go-httpstat v0.2.1-0.20191008022543-e866bb274419
	github.com/tg123/go-htpasswd v1.2.0
	github.com/tomasen/realip v0.0.0-20180522021738-f0c99a92ddce
	github.com/xeipuuv/gojsonschema v1.2.1-0.20201027075954-b076d39a02e5
	github.com/yl2chen/cidranger v1.0.2
	go.etcd.io/etcd/api/v3 v3.5.4
	go.etcd.io/etcd/client/v3 v3.5.4
	go.etcd.io/etcd/server/v3 v3.5.4
	go.uber.org/zap v1.21.0
	golang.org/x/crypto v0.0.0-20220411220226-7b82a4e95df4
	golang.org/x/net v0.0.0-20220520000938-2e3eb7b945c2
	golang.org/x/sync v0.0.0-20220513210516-0976fa681c29
	golang.org/x/sys v0.0.0-20220520151302-bc2c85ada10a
	gopkg.in/yaml.v2 v2.4.0
	gopkg.in/yaml.v3 v3.0.1
	k8s.io/api v0.24.1
	k8s.io/apimachinery v0.24.1
	k8s.io/client-go v0.24.1
	knative.dev/client v0.32.0
	knative.dev/serving v0.32.0
)

require (
	contrib.go.opencensus.io/exporter/ocagent v0.7.1-0.20200907061046-05415f1de66d // indirect
	contrib.go.opencensus.io/exporter/prometheus v0.4.0 // indirect
	github.com/Azure/azure-sdk-for-go v62.0.0+incompatible // indirect
	github.com/Azure/go-autorest v14.2.0+incompatible // indirect
	github.com/Azure/go-autorest/autorest v0.11.24 // indirect
	github.com/Azure/go-autorest/autorest/adal v0.9.18 // indirect
	github.com/Azure/go-autorest/autorest/azure/auth v0.5.11 // indirect
	github.com/Azure/go-autorest/autorest/azure/cli v0.4.5 // indirect
	github.com/Azure/go-autorest/autorest/date v0.3.0 // indirect
	github.com/Azure/go-autorest/autorest/to v0.4.0 // indirect
	github.com/Azure/go-autorest/logger v0.2.1 // indirect
	github.com/Azure/go-autorest/tracing v0.6.0 // indirect
	github.com/GehirnInc/crypt v0.0.0-20200316065508-bb7000b8a962 // indirect
	github.com/PuerkitoBio/purell v1.1.1 // indirect
	github.com/PuerkitoBio/urlesc v0.0.0-20170810143723-de5bf2ad4578 // indirect
	github.com/aliyun/alibaba-cloud-sdk-go v1.61.18 // indirect
	github.com/antlr/antlr4/runtime/Go/antlr v0.0.0-20211221011931-643d94fcab96 // indirect
	github.com/armon/go-metrics v0.3.10 // indirect
	github.com/aws/aws-sdk-go v1.41.14 // indirect
	github.com/beorn7/perks v1.0.1 // indirect
	github.com/blendle/zapdriver v1.3.1 // indirect
	github.com/buger/jsonparser v1.1.1 // indirect
	github.com/census-instrumentation/opencensus-proto v0.3.0 // indirect
	github.com/cespare/xxhash/v2 v2.1.2 // indirect
	github.com/cheekybits/genny v1.0.0 // indirect
	github.com/cloudevents/sdk-go/sql/v2 v2.8.0 // indirect
	github.com/cloudevents/sdk-go/v2 v2.8.0 // indirect
	github.com/coreos/go-semver v0.3.0 // indirect
	github.com/coreos/go-systemd/v22 v22.3.2 // indirect
	github.com/davecgh/go-spew v1.1.1 // indirect
	github.com/digitalocean/godo v1.41.0 // indirect
	github.com/dimchansky/utfbom v1.1.1 // indirect
	github.com/dustin/go-humanize v1.0.0 // indirect
	github.com/eapache/go-resiliency v1.2.0 // indirect
	github.com/eapache/go-xerial-snappy v0.0.0-20180814174437-776d5712da21 // indirect
	github.com/eapache/queue v1.1.0 // indirect
	github.com/emicklei/go-restful v2.15.0+incompatible // indirect
	github.com/evanphx/json-patch v4.12.0+incompatible // indirect
	github.com/evanphx/json-patch/v5 v5.6.0 // indirect
	github.com/facebookgo/ensure v0.0.0-20200202191622-63f1cf65ac4c // indirect
	github.com/facebookgo/freeport v0.0.0-20150612182905-d4adf43b75b9 // indirect
	github.com/facebookgo/stack v0.0.0-20160209184415-751773369052 // indirect
	github.com/facebookgo/subset v0.0.0-20200203212716-c811ad88dec4 // indirect
	github.com/form3tech-oss/jwt-go v3.2.5+incompatible // indirect
	github.com/go-errors/errors v1.0.1 // indirect
	github.com/go-kit/log v0.1.0 // indirect
	github.com/go-logfmt/logfmt v0.5.0 // indirect
	github.com/go-logr/logr v1.2.2 // indirect
	github.com/go-openapi/jsonpointer v0.19.5 // indirect
	github.com/go-openapi/jsonreference v0.19.5 // indirect
	github.com/go-openapi/swag v0.19.15 // indirect
	github.com/gogo/protobuf v1.3.2 // indirect
	github.com/golang-jwt/jwt/v4 v4.3.0 // indirect
	github.com/golang/groupcache v0.0.0-20210331224755-41bb18bfe9da // indirect
	github.com/golang/protobuf v1.5.2 // indirect
	github.com/golang/snappy v0.0.4 // indirect
	github.com/google/btree v1.0.1 // indirect
	github.com/google/gnostic v0.5.7-v3refs // indirect
	github.com/google/go-cmp v0.5.8 // indirect
	github.com/google/go-containerregistry v0.8.1-0.20220414143355-892d7a808387 // indirect
	github.com/google/go-querystring v1.1.0 // indirect
	github.com/google/gofuzz v1.2.0 // indirect
	github.com/google/shlex v0.0.0-20191202100458-e7afc7fbc510 // indirect
	github.com/gregjones/httpcache v0.0.0-20190611155906-901d90724c79 // indirect
	github.com/grpc-ecosystem/go-grpc-middleware v1.3.0 // indirect
	github.com/grpc-ecosystem/go-grpc-prometheus v1.2.0 // indirect
	github.com/grpc-ecosystem/grpc-gateway v1.16.0 // indirect
	github.com/hashicorp/errwrap v1.0.0 // indirect
	github.com/hashicorp/go-cleanhttp v0.5.2 // indirect
	github.com/hashicorp/go-hclog v1.2.0 // indirect
	github.com/hashicorp/go-immutable-radix v1.3.1 // indirect
	github.com/hashicorp/go-multierror v1.1.1 // indirect
	github.com/hashicorp/go-retryablehttp v0.7.0 // indirect
	github.com/hashicorp/go-rootcerts v1.0.2 // indirect
	github.com/hashicorp/go-uuid v1.0.2 // indirect
	github.com/hashicorp/hcl v1.0.0 // indirect
	github.com/hashicorp/serf v0.9.7 // indirect
	github.com/iancoleman/orderedmap v0.0.0-20190318233801-ac98e3ecb4b0 // indirect
	github.com/imdario/mergo v0.3.12 // indirect
	github.com/inconshreveable/mousetrap v1.0.0 // indirect
	github.com/jcmturner/aescts/v2 v2.0.0 // indirect
	github.com/jcmturner/dnsutils/v2 v2.0.0 // indirect
	github.com/jcmturner/gofork v1.0.0 // indirect
	github.com/jcmturner/gokrb5/v8 v8.4.2 // indirect
	github.com/jcmturner/rpc/v2 v2.0.3 // indirect
	github.com/jmespath/go-jmespath v0.4.0 // indirect
	github.com/jonboulle/clockwork v0.2.2 // indirect
	github.com/josharian/intern v1.0.0 // indirect
	github.com/json-iterator/go v1.1.12 // indirect
	github.com/kelseyhightower/envconfig v1.4.0 // indirect
	github.com/klauspost/compress v1.15.1 // indirect
	github.com/liggitt/tabwriter v0.0.0-20181228230101-89fcab3d43de // indirect
	github.com/magiconair/properties v1.8.6 // indirect
	github.com/mailru/easyjson v0.7.7 // indirect
	github.com/marten-seemann/qpack v0.2.1 // indirect
	github.com/marten-seemann/qtls-go1-16 v0.1.5 // indirect
	github.com/marten-seemann/qtls-go1-17 v0.1.2 // indirect
	github.com/marten-seemann/qtls-go1-18 v0.1.2 // indirect
	github.com/mattn/go-colorable v0.1.12 // indirect
	github.com/mattn/go-isatty v0.0.14 // indirect
	github.com/matttproud/golang_protobuf_extensions v1.0.2-0.20181231171920-c182affec369 // indirect
	github.com/miekg/dns v1.1.41 // indirect
	github.com/mitchellh/go-homedir v1.1.0 // indirect
	github.com/modern-go/concurrent v0.0.0-20180306012644-bacd9c7ef1dd // indirect
	github.com/modern-go/reflect2 v1.0.2 // indirect
	github.com/monochromegane/go-gitignore v0.0.0-20200626010858-205db1a8cc00 // indirect
	github.com/munnerz/goautoneg v0.0.0-20191010083416-a7dc8b61c822 // indirect
	github.com/nrdcg/dnspod-go v0.4.0 // indirect
	github.com/nxadm/tail v1.4.8 // indirect
	github.com/onsi/ginkgo v1.16.5 // indirect
	github.com/pelletier/go-toml v1.9.5 // indirect
	github.com/pelletier/go-toml/v2 v2.0.1 // indirect
	github.com/peterbourgon/diskv v2.0.1+incompatible // indirect
	github.com/pierrec/lz4/v4 v4.1.14 // indirect
	github.com/pkg/errors v0.9.1 // indirect
	github.com/pmezard/go-difflib v1.0.0 // indirect
	github.com/prometheus/client_golang v1.12.1 // indirect
	github.com/prometheus/client_model v0.2.0 // indirect
	github.com/prometheus/common v0.32.1 // indirect
	github.com/prometheus/procfs v0.7.3 // indirect
	github.com/prometheus/statsd_exporter v0.21.0 // indirect
	github.com/rickb777/date v1.13.0 // indirect
	github.com/rickb777/plural v1.2.1 // indirect
	github.com/robfig/cron/v3 v3.0.1 // indirect
	github.com/sirupsen/logrus v1.8.1 // indirect
	github.com/soheilhy/cmux v0.1.5 // indirect
	github.com/spf13/afero v1.8.2 // indirect
	github.com/spf13/cast v1.5.0 // indirect
	github.com/spf13/jwalterweatherman v1.1.0 // indirect
	github.com/subosito/gotenv v1.3.0 // indirect
	github.com/tmc/grpc-websocket-proxy v0.0.0-20201229170055-e5319fda7802 // indirect
	github.com/toolkits/concurrent v0.0.0-20150624120057-a4371d70e3e3 // indirect
	github.com/vultr/govultr/v2 v2.11.0 // indirect
	github.com/xeipuuv/gojsonpointer v0.0.0-20190905194746-02993c407bfb // indirect
	github.com/xeipuuv/gojsonreference v0.0.0-20180127040603-bd5ef7bd5415 // indirect
	github.com/xiang90/probing v0.0.0-20190116061207-43a291ad63a2 // indirect
	github.com/xlab/treeprint v0.0.0-20181112141820-a009c3971eca // indirect
	go.etcd.io/bbolt v1.3.6 // indirect
	go.etcd.io/etcd/client/pkg/v3 v3.5.4 // indirect
	go.etcd.io/etcd/client/v2 v2.305.4 // indirect
	go.etcd.io/etcd/pkg/v3 v3.5.4 // indirect
	go.etcd.io/etcd/raft/v3 v3.5.4 // indirect
	go.opencensus.io v0.23.0 // indirect
	go.opentelemetry.io/contrib v0.20.0 // indirect
	go.opentelemetry.io/contrib/instrumentation/google.golang.org/grpc/otelgrpc v0.20.0 // indirect
	go.opentelemetry.io/otel v0.20.0 // indirect
	go.opentelemetry.io/otel/exporters/otlp v0.20.0 // indirect
	go.opentelemetry.io/otel/metric v0.20.0 // indirect
	go.opentelemetry.io/otel/sdk v0.20.0 // indirect
	go.opentelemetry.io/otel/sdk/export/metric v0.20.0 // indirect
	go.opentelemetry.io/otel/sdk/metric v0.20.0 // indirect
	go.opentelemetry.io/otel/trace v0.20.0 // indirect
	go.opentelemetry.io/proto/otlp v0.7.0 // indirect
	go.starlark.net v0.0.0-20200306205701-8dd3e2ee1dd5 // indirect
	go.uber.org/atomic v1.9.0 // indirect
	go.uber.org/multierr v1.6.0 // indirect
	golang.org/x/mod v0.6.0-dev.0.20220106191415-9b9b3d81d5e3 // indirect
	golang.org/x/oauth2 v0.0.0-20220411215720-9780585627b5 // indirect
	golang.org/x/term v0.0.0-20210927222741-03fcf44c2211 // indirect
	golang.org/x/text v0.3.7 // indirect
	golang.org/x/time v0.0.0-20220224211638-0e9765cccd65 // indirect
	golang.org/x/tools v0.1.10-0.20220218145154-897bd77cd717 // indirect
	golang.org/x/xerrors v0.0.0-20220517211312-f3a8303e98df // indirect
	gomodules.xyz/jsonpatch/v2 v2.2.0 // indirect
	google.golang.org/api v0.81.0 // indirect
	google.golang.org/appengine v1.6.7 // indirect
	google.golang.org/genproto v0.0.0-20220519153652-3a47de7e79bd // indirect
	google.golang.org/grpc v1.46.2 // indirect
	google.golang.org/protobuf v1.28.0 // indirect
	gopkg.in/inf.v0 v0.9.1 // indirect
	gopkg.in/ini.v1 v1.66.4 // indirect
	gopkg.in/natefinch/lumberjack.v2 v2.0.0 // indirect
	gopkg.in/tomb.v1 v1.0.0-20141024135613-dd632973f1e7 // indirect
	gotest.tools/v3 v3.1.0 // indirect
	k8s.io/apiextensions-apiserver v0.23.4 // indirect
	k8s.io/cli-runtime v0.23.4 // indirect
	k8s.io/klog/v2 v2.60.1 // indirect
	k8s.io/kube-openapi v0.0.0-20220328201542-3ee0da9b0b42 // indirect
	k8s.io/utils v0.0.0-20220210201930-3a6ce19ff2f9 // indirect
	knative.dev/eventing v0.32.0 // indirect
	knative.dev/networking v0.0.0-20220524205304-22d1b933cf73 // indirect
	knative.dev/pkg v0.0.0-20220524202603-19adf798efb8 // indirect
	sigs.k8s.io/json v0.0.0-20211208200746-9f7c6b3444d2 // indirect
	sigs.k8s.io/kustomize/api v0.11.4 // indirect
	sigs.k8s.io/kustomize/kyaml v0.13.6 // indirect
	sigs.k8s.io/structured-merge-diff/v4 v4.2.1 // indirect
	sigs.k8s.io/yaml v1.3.0 // indirect
)

replace github.com/go-openapi/spec => github.com/go-openapi/spec v0.19.3

replace github.com/buger/jsonparser => github.com/buger/jsonparser v1.1.1

replace k8s.io/apiextensions-apiserver => k8s.io/apiextensions-apiserver v0.24.1

replace k8s.io/cli-runtime => k8s.io/cli-runtime v0.24.1

replace github.com/lucas-clemente/quic-go => /tmp/seedtools/quic-go
