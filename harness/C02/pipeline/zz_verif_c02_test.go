//go:build verif

package pipeline

// C02 — all flows up to a bound x all result vectors: Spec validation against the reference
// predicate, execution against the reference interpreter (DESIGN Appendix A.2).  The flow model is in
// harness/common/flowmodel.

import (
	"fmt"
	"strings"
	"testing"

	"github.com/megaease/easegress/pkg/supervisor"
	"github.com/megaease/easegress/pkg/zzverif/mc"
)

type vBuilt struct {
	p   *Pipeline
	err error
}

var vCache = map[string]*vBuilt{}

func buildPipeline(y string) *vBuilt {
	if b, ok := vCache[y]; ok {
		return b
	}
	if len(vCache) > 2000 {
		vCache = map[string]*vBuilt{}
	}
	b := &vBuilt{}
	func() {
		defer func() {
			if p := recover(); p != nil {
				b.err = fmt.Errorf("PANIC in NewSpec/Init: %v", p)
			}
		}()
		ss, err := supervisor.NewSpec(y)
		if err != nil {
			b.err = err
			return
		}
		p := &Pipeline{}
		p.Init(ss, nil)
		b.p = p
	}()
	vCache[y] = b
	return b
}

func TestVerifC02(t *testing.T) {
	env := mc.GetEnv()
	filterSets := [][]string{{"f1", "f2"}, {"f1", "f1"}, {"f1", "END"}, {"f1"}}
	var res *mc.Result

	// job 1: single pipeline, Handle
	single := func(maxNodes int) func(c *mc.Ctx) {
		return func(c *mc.Ctx) {
			vCtx = c
			fs := filterSets[c.ChooseDev(len(filterSets), "filters")]
			flow := genFlow(c, "flow", 0, maxNodes)
			y := pipelineYAML("p", flow, fs)
			c.Note("%s", y)
			b := buildPipeline(y)
			want := refValid(flow, fs)
			if (b.err == nil) != want {
				c.Failf(fmt.Sprintf("validate:accepted=%v,reference=%v", b.err == nil, want), "validation accepted=%v (err=%v), reference predicate says valid=%v\n%s", b.err == nil, b.err, want, y)
			}
			if b.err != nil {
				c.Outcome("rejected")
				return
			}
			eff := flow
			if len(flow) == 0 {
				for _, f := range fs {
					eff = append(eff, vNode{filter: f})
				}
			}
			ref := &refRun{}
			vRec = nil
			ctx := newVCtx()
			got := b.p.Handle(ctx)
			// feed the reference with the results the real run drew, in order
			k := 0
			var drawn []string
			for _, ch := range c.Trace {
				if ch.Label == "result" {
					drawn = append(drawn, vResults[ch.Pick])
				}
			}
			refExec(eff, func() string {
				if k < len(drawn) {
					k++
					return drawn[k-1]
				}
				k++
				return "" // reference wants more invocations than happened: mismatch shows below
			}, ref)
			compareRun(c, "Handle", got, ctx, ref, y)
			c.Outcome(fmt.Sprintf("ran%d-ended=%v-last=%s", len(ref.inv), ref.ended, ref.last))
			if res != nil {
				res.Count("accepted_runs", 1)
			}
		}
	}
	// job 2: before / main / after
	triple := func(c *mc.Ctx) {
		vCtx = c
		fs := filterSets[0]
		var flows [3][]vNode
		var ps [3]*Pipeline
		present := [3]bool{c.Choose(2, "before?") == 0, true, c.Choose(2, "after?") == 0}
		var ys [3]string
		for i, tag := range []string{"before", "main", "after"} {
			if !present[i] {
				continue
			}
			flows[i] = genFlow(c, tag, 1, 2)
			ys[i] = pipelineYAML(tag, flows[i], fs)
			b := buildPipeline(ys[i])
			want := refValid(flows[i], fs)
			if (b.err == nil) != want {
				c.Failf(fmt.Sprintf("validate:accepted=%v,reference=%v", b.err == nil, want), "validation accepted=%v (err=%v), reference says %v\n%s", b.err == nil, b.err, want, ys[i])
			}
			if b.err != nil {
				c.Outcome("rejected")
				return
			}
			ps[i] = b.p
		}
		y := strings.Join(ys[:], "---\n")
		c.Note("%s", y)
		vRec = nil
		ctx := newVCtx()
		got := ps[1].HandleWithBeforeAfter(ctx, ps[0], ps[2])
		var drawn []string
		for _, ch := range c.Trace {
			if ch.Label == "result" {
				drawn = append(drawn, vResults[ch.Pick])
			}
		}
		k := 0
		next := func() string {
			k++
			if k-1 < len(drawn) {
				return drawn[k-1]
			}
			return ""
		}
		ref := &refRun{}
		for i := 0; i < 3; i++ {
			if present[i] && !ref.ended {
				refExec(flows[i], next, ref)
			}
		}
		compareRun(c, "HandleWithBeforeAfter", got, ctx, ref, y)
		c.Outcome(fmt.Sprintf("triple-ran%d-ended=%v", len(ref.inv), ref.ended))
	}
	devS, nodesS, devT := 2, 3, 1
	if env.Thorough() {
		devS, devT = 3, 2
	}
	mk := func(name string, maxDev, depth int, run func(*mc.Ctx)) mc.Job {
		return mc.Job{Name: name,
			Run: func(r *mc.Result, env *mc.Env) {
				res = r
				mc.Explore(r, mc.Options{Job: name, MaxDev: maxDev, SubShard: env.Shard, SubN: env.NShards, SubDepth: depth, Env: env}, run)
			},
			Replay: func(ch []int) (*mc.Failure, []string) { return mc.ReplayOne(run, ch) }}
	}
	jobs := []mc.Job{mk("single", devS, 6, single(nodesS)), mk("before-main-after", devT, 6, triple)}
	if env.Thorough() {
		jobs = append(jobs, mk("single-4nodes", 2, 6, single(4)))
	}
	mc.RunJobsAll("C02", jobs)
}
