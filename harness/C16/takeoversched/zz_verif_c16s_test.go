//go:build verif

//go:debug asynctimerchan=0

package mqttproxy

// C16, gate-level unit — "the teardown of the superseded connection, WHENEVER it happens, never removes the new
// connection's session, its subscriptions or its registration": the end of connection A's link (its read loop
// notices and tears the connection down) runs concurrently with connection B of the same client id connecting
// and subscribing, on the real broker whose sync primitives are gated (sync / sync/atomic of broker.go,
// client.go, session_manager.go, topic.go and session.go redirected to vsync / vatomic): every schedule at gate
// granularity up to the preemption bound.  Afterwards B must be the registered connection, receive a message on
// the topic it subscribed, and (persistent B) a later reconnect must get the subscription back.

import (
	"fmt"
	"sync/atomic"
	"testing"
	"testing/synctest"

	"github.com/eclipse/paho.mqtt.golang/packets"
	"github.com/megaease/easegress/pkg/zzverif/mc"
	"github.com/megaease/easegress/pkg/zzverif/vrt"
)

func TestVerifC16sched(t *testing.T) {
	synctest.Test(t, func(t *testing.T) {
		vrt.SetMode(vrt.ModeFree)
		env := mc.GetEnv()
		maxDev := 2
		if env.Thorough() {
			maxDev = 3
		}
		var jobs []mc.Job
		for _, cleanA := range []bool{true, false} {
			for _, cleanB := range []bool{true, false} {
				cleanA, cleanB := cleanA, cleanB
				run := func(c *mc.Ctx) {
					vb := vNewBroker(&Spec{})
					a := vb.connect("c", cleanA)
					if a.connack != packets.Accepted || !a.subscribe("t1", 1) {
						c.Failf("harness:setup", "connection A: CONNACK %d", a.connack)
					}
					a.take()
					vb.b.RLock()
					srvA := vb.b.clients["c"] // the broker's end of connection A
					vb.b.RUnlock()
					var b *vClient
					bAck, bSub := byte(0xff), false
					sch := vrt.New(c)
					sch.Go("link-of-A-ends", func() {
						a.conn.Close()
					})
					sch.Go("B-connects-and-subscribes", func() {
						b = vb.dial("c")
						p := packets.NewControlPacket(packets.Connect).(*packets.ConnectPacket)
						p.ClientIdentifier, p.CleanSession, p.ProtocolName, p.ProtocolVersion = "c", cleanB, "MQTT", 4
						if err := p.Write(b.conn); err != nil {
							return
						}
						r, err := packets.ReadPacket(b.conn)
						if err != nil {
							return
						}
						if ack, ok := r.(*packets.ConnackPacket); ok {
							bAck = ack.ReturnCode
						}
						s := packets.NewControlPacket(packets.Subscribe).(*packets.SubscribePacket)
						s.MessageID, s.Topics, s.Qoss, s.Qos = 9, []string{"t2"}, []byte{1}, 1
						if err := s.Write(b.conn); err != nil {
							return
						}
						for {
							r, err := packets.ReadPacket(b.conn)
							if err != nil {
								return
							}
							if sa, ok := r.(*packets.SubackPacket); ok && sa.MessageID == 9 {
								bSub = true
								return
							}
						}
					})
					if msg := sch.Run(); msg != "" {
						c.Failf("scheduler:"+msg[:8], "%s\n%s", msg, sch.TraceString())
					}
					synctest.Wait()
					tr := sch.TraceString()
					c.Note("schedule: %s", tr)
					desc := fmt.Sprintf("A cleanSession=%v subscribed t1, its link ends || B cleanSession=%v connects and subscribes t2", cleanA, cleanB)
					superseded := atomic.LoadInt32(&srvA.takenOver) == 1
					if cleanA && !superseded {
						// A's link ended before B's CONNECT was processed: a plain reconnect, not a take-over.  A's own teardown
						// deletes its (clean) stored session, and the broker's delete watch, which cannot tell this from an admin
						// delete, closes whatever connection of that id is registered when the event arrives -- possibly B.
						// The statement's take-over clause does not cover this schedule (see DESIGN 7); it is not judged.
						c.Outcome(fmt.Sprintf("cleanA=%v,cleanB=%v plain-reconnect-not-judged", cleanA, cleanB))
						if b != nil {
							b.conn.Close()
						}
						vb.close()
						return
					}
					if bAck != packets.Accepted || !bSub {
						c.Failf(fmt.Sprintf("takeover-sched:new-connection-closed-before-its-subscribe-was-acknowledged:cleanA=%v", cleanA), "%s: CONNACK %d, SUBACK %v\nschedule: %s", desc, bAck, bSub, tr)
					}
					b.startReading()
					synctest.Wait()
					// registration
					vb.b.RLock()
					rc, registered := vb.b.clients["c"]
					vb.b.RUnlock()
					if !registered || rc.disconnected() {
						c.Failf(fmt.Sprintf("takeover-sched:new-connection-closed-or-unregistered:cleanA=%v", cleanA), "%s: after both finished the broker has no live registration for the client id\nschedule: %s", desc, tr)
					}
					// subscriptions of B: t2 always; t1 too iff B continues A's persistent session
					wantT1 := !cleanA && !cleanB
					for _, tp := range []string{"t1", "t2"} {
						b.take()
						vb.httpPublish(tp, 0, "probe")
						synctest.Wait()
						got := len(publishesOf(b.take()))
						want := 0
						if tp == "t2" || wantT1 {
							want = 1
						}
						if got != want {
							kind := "new-connection-misses-message"
							if got > want {
								kind = "new-connection-gets-topic-of-discarded-session"
							}
							c.Failf("takeover-sched:"+kind+":"+tp, "%s: probe on %s: B received %d copies, expected %d\nschedule: %s", desc, tp, got, want, tr)
						}
					}
					// the stored session of a persistent B survives: drop B, reconnect non-clean, t2 must come back
					if !cleanB {
						b.drop()
						d := vb.connect("c", false)
						if d.connack != packets.Accepted {
							c.Failf("takeover-sched:reconnect-refused", "%s: CONNACK %d", desc, d.connack)
						}
						d.take()
						vb.httpPublish("t2", 0, "probe2")
						synctest.Wait()
						if got := len(publishesOf(d.take())); got != 1 {
							c.Failf("takeover-sched:stored-session-of-new-connection-lost", "%s: after B dropped and reconnected with cleanSession=false it received %d copies of a message on t2 (its stored session should have restored the subscription)\nschedule: %s", desc, got, tr)
						}
						d.drop()
					} else {
						b.drop()
					}
					c.Outcome(fmt.Sprintf("cleanA=%v,cleanB=%v", cleanA, cleanB))
					vb.close()
				}
				jobs = append(jobs, mc.ExploreJob(mc.Options{Job: fmt.Sprintf("takeover-sched/cleanA=%v,cleanB=%v", cleanA, cleanB), MaxDev: maxDev}, run))
			}
		}
		mc.RunJobs("C16", jobs)
	})
}
