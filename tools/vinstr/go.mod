module verif/vinstr

go 1.23
