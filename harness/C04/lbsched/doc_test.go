//go:build verif

package proxy

// the concurrent harness lives in harness/C04/lbseq (shared helpers); this unit only selects TestVerifC04sched.
