//go:build verif

package httpserver

// Loopback rig (C03, C07): a real http.Server with the real mux as handler on a loopback listener, a real
// Pipeline (Proxy and adaptor filters) behind a MuxMapper, a real loopback backend that records what it
// receives and answers from a script, and a RAW-SOCKET client that writes the request bytes itself and parses
// the response itself (status line, headers, then exactly Content-Length bytes or chunked framing; anything
// missing or left over is a framing error).

import (
	"bufio"
	"bytes"
	"compress/gzip"
	"fmt"
	"io"
	"net"
	"net/http"
	"sort"
	"strconv"
	"strings"
	"sync"
	"time"

	"github.com/megaease/easegress/pkg/context"
	_ "github.com/megaease/easegress/pkg/filters/proxy"
	_ "github.com/megaease/easegress/pkg/filters/requestadaptor"
	_ "github.com/megaease/easegress/pkg/filters/responseadaptor"
	"github.com/megaease/easegress/pkg/logger"
	"github.com/megaease/easegress/pkg/object/pipeline"
	"github.com/megaease/easegress/pkg/protocols/httpprot/httpstat"
	"github.com/megaease/easegress/pkg/supervisor"
)

func init() { logger.InitNop() }

// ---- backend ----

type lbScript struct {
	status   int
	body     []byte // bytes put on the wire (already gzip'd when contentEnc == "gzip")
	chunked  bool
	hdr      [][2]string
	lieExtra int // declare Content-Length len(body)+lieExtra, send len(body), then close (C07)
}

type lbSeen struct {
	called  bool
	method  string
	uri     string // RequestURI as received
	host    string
	hdr     http.Header
	body    []byte
	bodyErr error
	te      []string
}

type lbBackend struct {
	l     net.Listener
	srv   *http.Server
	mu    sync.Mutex
	cases map[string]*lbCase
}

type lbCase struct {
	script lbScript
	seen   []lbSeen
}

func newLBBackend() *lbBackend {
	l, err := net.Listen("tcp", "127.0.0.1:0")
	if err != nil {
		panic(err)
	}
	b := &lbBackend{l: l, cases: map[string]*lbCase{}}
	b.srv = &http.Server{Handler: http.HandlerFunc(b.serve)}
	go b.srv.Serve(l)
	return b
}

func (b *lbBackend) port() int { return b.l.Addr().(*net.TCPAddr).Port }

func (b *lbBackend) serve(w http.ResponseWriter, r *http.Request) {
	id := r.Header.Get("X-Verif-Case")
	b.mu.Lock()
	cs := b.cases[id]
	b.mu.Unlock()
	if cs == nil {
		w.WriteHeader(599)
		return
	}
	body, err := io.ReadAll(r.Body)
	seen := lbSeen{called: true, method: r.Method, uri: r.RequestURI, host: r.Host, hdr: r.Header.Clone(), body: body, bodyErr: err, te: r.TransferEncoding}
	b.mu.Lock()
	cs.seen = append(cs.seen, seen)
	sc := cs.script
	b.mu.Unlock()
	for _, kv := range sc.hdr {
		w.Header().Add(kv[0], kv[1])
	}
	if sc.lieExtra != 0 {
		// declare more than is sent, then cut the connection
		hj, _ := w.(http.Hijacker)
		conn, buf, _ := hj.Hijack()
		fmt.Fprintf(buf, "HTTP/1.1 %d X\r\nContent-Length: %d\r\n\r\n", sc.status, len(sc.body)+sc.lieExtra)
		buf.Write(sc.body)
		buf.Flush()
		conn.Close()
		return
	}
	if !sc.chunked {
		w.Header().Set("Content-Length", strconv.Itoa(len(sc.body)))
		w.WriteHeader(sc.status)
		w.Write(sc.body)
		return
	}
	w.WriteHeader(sc.status)
	if f, ok := w.(http.Flusher); ok && len(sc.body) > 0 {
		half := len(sc.body) / 2
		w.Write(sc.body[:half])
		f.Flush()
		w.Write(sc.body[half:])
		f.Flush()
	}
}

// ---- front (real mux + real pipeline) ----

type lbFront struct {
	l    net.Listener
	srv  *http.Server
	pipe *pipeline.Pipeline
	m    *mux
}

func (f *lbFront) GetHandler(name string) (context.Handler, bool) {
	if name == "pipe" {
		return f.pipe, true
	}
	return nil, false
}

var lbSuper = supervisor.NewDefaultMock()

// newLBFront builds the front server.  serverYAML is the HTTPServer spec, pipelineYAML the Pipeline spec.
func newLBFront(serverYAML, pipelineYAML string) (*lbFront, error) {
	ps, err := lbSuper.NewSpec(pipelineYAML)
	if err != nil {
		return nil, fmt.Errorf("pipeline spec: %v", err)
	}
	ent, err := lbSuper.NewObjectEntityFromSpec(ps)
	if err != nil {
		return nil, err
	}
	p := ent.Instance().(*pipeline.Pipeline)
	p.Init(ps, nil)
	ss, err := lbSuper.NewSpec(serverYAML)
	if err != nil {
		return nil, fmt.Errorf("server spec: %v", err)
	}
	f := &lbFront{pipe: p}
	f.m = newMux(httpstat.New(), httpstat.NewTopN(10), f)
	f.m.reload(ss, f)
	l, err := net.Listen("tcp", "127.0.0.1:0")
	if err != nil {
		return nil, err
	}
	f.l = l
	f.srv = &http.Server{Handler: f.m}
	go f.srv.Serve(l)
	return f, nil
}

func (f *lbFront) close() {
	f.srv.Close()
	f.pipe.Close()
}

// ---- raw client ----

type lbReq struct {
	method, target string // target = escaped path [+ ?rawquery]
	host           string
	hdr            [][2]string
	body           []byte
	chunked        bool
	lieExtra       int // declare Content-Length len(body)+lieExtra but send only len(body), then half-close
}

type lbResp struct {
	status     int
	hdr        http.Header
	body       []byte
	framing    string // "content-length" | "chunked" | "eof" | "none"
	framingErr string // "" = well framed
	declaredCL int
	ioErr      error
}

func lbDo(addr string, q lbReq) lbResp {
	conn, err := net.DialTimeout("tcp", addr, 5*time.Second)
	if err != nil {
		return lbResp{ioErr: err}
	}
	defer conn.Close()
	conn.SetDeadline(time.Now().Add(20 * time.Second))
	var b bytes.Buffer
	fmt.Fprintf(&b, "%s %s HTTP/1.1\r\nHost: %s\r\n", q.method, q.target, q.host)
	for _, kv := range q.hdr {
		fmt.Fprintf(&b, "%s: %s\r\n", kv[0], kv[1])
	}
	switch {
	case q.chunked:
		b.WriteString("Transfer-Encoding: chunked\r\n\r\n")
		if len(q.body) > 0 {
			half := len(q.body) / 2
			if half > 0 {
				fmt.Fprintf(&b, "%x\r\n", half)
				b.Write(q.body[:half])
				b.WriteString("\r\n")
			}
			fmt.Fprintf(&b, "%x\r\n", len(q.body)-half)
			b.Write(q.body[half:])
			b.WriteString("\r\n")
		}
		b.WriteString("0\r\n\r\n")
	case len(q.body) > 0 || q.lieExtra != 0 || q.method == "POST" || q.method == "PUT":
		fmt.Fprintf(&b, "Content-Length: %d\r\n\r\n", len(q.body)+q.lieExtra)
		b.Write(q.body)
	default:
		b.WriteString("\r\n")
	}
	go func() {
		conn.Write(b.Bytes())
		if q.lieExtra > 0 {
			if tc, ok := conn.(*net.TCPConn); ok {
				tc.CloseWrite() // the promised bytes never come
			}
		}
	}()
	return lbParse(bufio.NewReader(conn), q.method)
}

func lbParse(r *bufio.Reader, method string) lbResp {
	var res lbResp
	line, err := r.ReadString('\n')
	if err != nil {
		res.ioErr = fmt.Errorf("reading status line: %v", err)
		return res
	}
	parts := strings.SplitN(strings.TrimRight(line, "\r\n"), " ", 3)
	if len(parts) < 2 || !strings.HasPrefix(parts[0], "HTTP/1.") {
		res.framingErr = "bad status line " + strconv.Quote(line)
		return res
	}
	res.status, _ = strconv.Atoi(parts[1])
	res.hdr = http.Header{}
	for {
		l, err := r.ReadString('\n')
		if err != nil {
			res.framingErr = "headers cut off"
			return res
		}
		l = strings.TrimRight(l, "\r\n")
		if l == "" {
			break
		}
		i := strings.Index(l, ":")
		if i < 0 {
			res.framingErr = "bad header line " + strconv.Quote(l)
			return res
		}
		res.hdr.Add(strings.TrimSpace(l[:i]), strings.TrimSpace(l[i+1:]))
	}
	res.declaredCL = -1
	noBody := method == "HEAD" || res.status == 204 || res.status == 304 || (res.status >= 100 && res.status < 200)
	if cl := res.hdr.Get("Content-Length"); cl != "" {
		res.declaredCL, _ = strconv.Atoi(cl)
	}
	switch {
	case noBody:
		res.framing = "none"
	case strings.Contains(strings.ToLower(res.hdr.Get("Transfer-Encoding")), "chunked"):
		res.framing = "chunked"
		for {
			l, err := r.ReadString('\n')
			if err != nil {
				res.framingErr = "chunk header cut off"
				return res
			}
			n, err := strconv.ParseInt(strings.TrimSpace(strings.SplitN(l, ";", 2)[0]), 16, 64)
			if err != nil {
				res.framingErr = "bad chunk size " + strconv.Quote(l)
				return res
			}
			if n == 0 {
				// trailers until the empty line
				for {
					t, err := r.ReadString('\n')
					if err != nil {
						res.framingErr = "missing final CRLF after last chunk"
						return res
					}
					if strings.TrimRight(t, "\r\n") == "" {
						break
					}
				}
				break
			}
			buf := make([]byte, n)
			if _, err := io.ReadFull(r, buf); err != nil {
				res.framingErr = "chunk data cut off"
				return res
			}
			res.body = append(res.body, buf...)
			if crlf, err := r.ReadString('\n'); err != nil || strings.TrimRight(crlf, "\r\n") != "" {
				res.framingErr = "chunk not followed by CRLF"
				return res
			}
		}
	case res.declaredCL >= 0:
		res.framing = "content-length"
		buf := make([]byte, res.declaredCL)
		n, err := io.ReadFull(r, buf)
		res.body = buf[:n]
		if err != nil {
			res.framingErr = fmt.Sprintf("Content-Length %d declared but only %d body bytes arrived", res.declaredCL, n)
			return res
		}
	default:
		res.framing = "eof"
		res.body, _ = io.ReadAll(r)
		return res
	}
	// every request carries "Connection: close": nothing may follow the framed response
	rest, _ := io.ReadAll(r)
	if len(rest) > 0 {
		res.framingErr = fmt.Sprintf("%d bytes after the end of the framed response", len(rest))
	}
	return res
}

// ---- helpers ----

func gz(b []byte) []byte {
	var buf bytes.Buffer
	w := gzip.NewWriter(&buf)
	w.Write(b)
	w.Close()
	return buf.Bytes()
}

// logical undoes the Content-Encoding a message is labelled with.
func logical(body []byte, h http.Header) ([]byte, error) {
	if strings.Contains(h.Get("Content-Encoding"), "gzip") {
		zr, err := gzip.NewReader(bytes.NewReader(body))
		if err != nil {
			return nil, fmt.Errorf("labelled gzip but not a gzip stream: %v", err)
		}
		out, err := io.ReadAll(zr)
		if err != nil {
			return nil, fmt.Errorf("labelled gzip but the stream is damaged: %v", err)
		}
		return out, nil
	}
	return body, nil
}

func sortedKeys(h http.Header) []string {
	var k []string
	for n := range h {
		k = append(k, n)
	}
	sort.Strings(k)
	return k
}

func pattern(n int) []byte {
	b := make([]byte, n)
	for i := range b {
		b[i] = byte('a' + i%23)
	}
	return b
}
