//go:build verif

package PKG

// Base specs of the filter kinds that run without external services (shared by C11 and C13; the package
// clause is substituted by the driver).  "alt" is a changed spec of the same kind (for inheritance).

type vKindSpec struct {
	kind, base, alt string
}

var vKindSpecs = []vKindSpec{
	{"RateLimiter", `
kind: RateLimiter
name: f
policies:
- name: pol
  timeoutDuration: 0ms
  limitRefreshPeriod: 1h
  limitForPeriod: 2
defaultPolicyRef: pol
urls:
- methods: [GET]
  url:
    prefix: /
`, `
kind: RateLimiter
name: f
policies:
- name: pol
  timeoutDuration: 0ms
  limitRefreshPeriod: 1h
  limitForPeriod: 2
- name: other
  limitForPeriod: 9
defaultPolicyRef: pol
urls:
- methods: [GET]
  url:
    prefix: /
- url:
    exact: /other
  policyRef: other
`},
	{"Mock", `
kind: Mock
name: f
rules:
- match:
    path: /x
  code: 200
  body: hello
`, `
kind: Mock
name: f
rules:
- match:
    pathPrefix: /
  code: 201
  body: changed
`},
	{"RequestAdaptor", `
kind: RequestAdaptor
name: f
path:
  addPrefix: /v3
header:
  add:
    X-A: a
`, `
kind: RequestAdaptor
name: f
method: POST
body: replaced
`},
	{"ResponseAdaptor", `
kind: ResponseAdaptor
name: f
header:
  add:
    X-R: r
`, `
kind: ResponseAdaptor
name: f
body: replaced
`},
	{"Validator", `
kind: Validator
name: f
jwt:
  algorithm: HS256
  secret: 6d79736563726574
`, `
kind: Validator
name: f
headers:
  X-Tag:
    values: [a]
`},
	{"Fallback", `
kind: Fallback
name: f
mockCode: 200
mockBody: fallback
`, `
kind: Fallback
name: f
mockCode: 503
mockHeaders:
  X-F: f
`},
	{"CORSAdaptor", `
kind: CORSAdaptor
name: f
allowedOrigins: ["http://*.example.com"]
allowedMethods: [GET]
`, `
kind: CORSAdaptor
name: f
supportCORSRequest: true
`},
	{"RequestBuilder", `
kind: RequestBuilder
name: f
protocol: http
template: |
  method: get
  url: http://127.0.0.1:8080
  body: "this is the body"
`, `
kind: RequestBuilder
name: f
protocol: http
sourceNamespace: DEFAULT
`},
	{"ResponseBuilder", `
kind: ResponseBuilder
name: f
protocol: http
template: |
  statusCode: 200
  body: "this is the body"
`, `
kind: ResponseBuilder
name: f
protocol: http
sourceNamespace: DEFAULT
`},
	{"Proxy", `
kind: Proxy
name: f
pools:
- servers:
  - url: http://127.0.0.1:9
`, `
kind: Proxy
name: f
pools:
- servers:
  - url: http://127.0.0.1:9
  - url: http://127.0.0.1:10
  loadBalance:
    policy: random
`},
	{"CertExtractor", `
kind: CertExtractor
name: f
certIndex: 0
target: subject
field: CommonName
headerKey: X-Cert-CN
`, `
kind: CertExtractor
name: f
certIndex: -1
target: issuer
field: Organization
headerKey: X-Cert-Org
`},
	{"HeaderToJSON", `
kind: HeaderToJSON
name: f
headerMap:
- header: X-Tag
  json: tag
`, `
kind: HeaderToJSON
name: f
headerMap:
- header: X-Tag
  json: tag
- header: Content-Type
  json: ct
`},
	{"MeshAdaptor", `
kind: MeshAdaptor
name: f
serviceCanaries:
- header:
    add:
      X-Canary: "1"
  filter:
    headers:
      X-Tag:
        exact: a
`, `
kind: MeshAdaptor
name: f
serviceCanaries:
- header:
    set:
      X-Canary: "2"
  filter:
    matchAllHeaders: true
    headers:
      X-Tag:
        prefix: a
    urls:
    - methods: [GET]
      url:
        prefix: /
`},
	{"RemoteFilter", `
kind: RemoteFilter
name: f
url: http://127.0.0.1:9/filter
timeout: 10ms
`, `
kind: RemoteFilter
name: f
url: http://127.0.0.1:9/other
timeout: 20ms
`},
}
