//go:build verif

package ratelimiter

// C09 part 1 — explicit-state search over arrival sequences on the real RateLimiter and
// MultiRateLimiter against the observed-quantities oracle of DESIGN A.4.

import (
	"fmt"
	"sort"
	"strings"
	"testing"
	"time"

	"github.com/megaease/easegress/pkg/zzverif/mc"
)

const c09P = 10 * time.Millisecond

type c09Pol struct {
	limit   int
	timeout time.Duration
	withN   bool
}

func (p c09Pol) String() string {
	return fmt.Sprintf("limit%d-timeout%v-N%v", p.limit, p.timeout, p.withN)
}

type c09Op struct {
	gap time.Duration
	n   int
}

type c09Sys struct {
	pol   c09Pol
	rl    *RateLimiter
	start time.Time
	now   time.Time
	res   map[int]int // release period -> permits released
	maxN  int
	ops   []c09Op
}

var c09Clock time.Time

func c09Gaps() []time.Duration {
	return []time.Duration{0, 1, c09P / 2, c09P - 1, c09P, 3*c09P + 1}
}

func newC09Sys(pol c09Pol) *c09Sys {
	s := &c09Sys{pol: pol, res: map[int]int{}, maxN: 1}
	s.start = time.Unix(1700000000, 0)
	s.now = s.start
	c09Clock = s.now
	nowFunc = func() time.Time { return c09Clock }
	s.rl = New(NewPolicy(pol.timeout, c09P, pol.limit))
	for _, g := range c09Gaps() {
		s.ops = append(s.ops, c09Op{g, 1})
	}
	if pol.withN {
		for _, n := range []int{pol.limit, pol.limit + 1, 3 * pol.limit} {
			if n > 1 {
				s.ops = append(s.ops, c09Op{0, n}, c09Op{c09P, n})
			}
		}
	}
	return s
}

func (s *c09Sys) NumOps() int        { return len(s.ops) }
func (s *c09Sys) Enabled(i int) bool { return true }
func (s *c09Sys) OpName(i int) string {
	return fmt.Sprintf("after %v acquire(%d)", s.ops[i].gap, s.ops[i].n)
}

func (s *c09Sys) period(t time.Time) int { return int(t.Sub(s.start) / c09P) }

func (s *c09Sys) Apply(c *mc.Ctx, i int) {
	op := s.ops[i]
	s.now = s.now.Add(op.gap)
	c09Clock = s.now
	var ok bool
	var w time.Duration
	if op.n == 1 {
		ok, w = s.rl.AcquirePermission()
	} else {
		ok, w = s.rl.AcquireNPermission(op.n)
	}
	p := s.period(s.now)
	horizon := int(s.pol.timeout / c09P)
	strict := !s.pol.withN // with AcquireN a single request may carry more than `limit` permits
	if ok {
		if w < 0 || w > s.pol.timeout {
			c.Failf("wait-exceeds-timeout", "%s: admitted with wait %v, timeout %v", s.pol, w, s.pol.timeout)
		}
		if strict && s.res[p] < s.pol.limit && w != 0 {
			c.Failf("spare-permit-but-waits", "%s: arrival in period %d which has %d/%d releases was made to wait %v", s.pol, p, s.res[p], s.pol.limit, w)
		}
		q := s.period(s.now.Add(w))
		s.res[q] += op.n
		if op.n > s.maxN {
			s.maxN = op.n
		}
		if strict && s.res[q] > s.pol.limit {
			c.Failf("period-over-limit", "%s: period %d now has %d releases, limit %d (arrival period %d, wait %v)", s.pol, q, s.res[q], s.pol.limit, p, w)
		}
		if !strict && s.res[q] >= s.pol.limit+s.maxN {
			c.Failf("period-over-limit-N", "%s: period %d has %d permits released, limit %d, largest request %d", s.pol, q, s.res[q], s.pol.limit, s.maxN)
		}
		if s.pol.timeout == 0 {
			// timeout 0 (the MQTT byte limiter): what a large request took beyond the period's budget is owed by
			// the following periods: over any k consecutive periods ending now, the admitted permits stay
			// below k*limit + the largest request (for k = 1 this is the per-period clause of the statement).
			// Why the implementation satisfies it: with timeout 0 a request is admitted only while the debt d (permits
			// taken and not yet paid back) is < limit, it then adds its size, and every period boundary pays back
			// min(d, limit).  Over k periods at most (k-1)*limit is paid back inside the window, the debt before the
			// last admission is < limit and the last request adds at most the largest size.
			sum := 0
			for k := 1; q-k+1 >= 0; k++ {
				sum += s.res[q-k+1]
				if sum >= k*s.pol.limit+s.maxN {
					c.Failf("window-over-limit-N", "%s: periods %d..%d admitted %d permits, limit %d per period, largest request %d", s.pol, q-k+1, q, sum, s.pol.limit, s.maxN)
				}
			}
		}
		if w == 0 {
			c.AddOutcome("admit-now")
		} else {
			c.AddOutcome(fmt.Sprintf("admit-wait-%dperiods", q-p))
		}
	} else {
		if strict {
			for q := p; q <= p+horizon; q++ {
				if s.res[q] < s.pol.limit {
					c.Failf("rejected-with-free-permit", "%s: rejected in period %d although period %d (within the timeout horizon %d) has only %d/%d releases", s.pol, p, q, horizon, s.res[q], s.pol.limit)
				}
			}
		}
		c.AddOutcome("reject")
	}
}

func (s *c09Sys) Canon() string {
	rl := s.rl
	cyc := s.period(s.now)
	tok := rl.tokens - (cyc-rl.cycle)*s.pol.limit
	if tok < 0 {
		tok = 0
	}
	var b strings.Builder
	fmt.Fprintf(&b, "tok=%d phase=%d res=", tok, int64(s.now.Sub(s.start)%c09P))
	var ks []int
	for q := range s.res {
		if q >= cyc {
			ks = append(ks, q)
		}
	}
	sort.Ints(ks)
	for _, q := range ks {
		fmt.Fprintf(&b, "%d:%d,", q-cyc, s.res[q])
	}
	fmt.Fprintf(&b, " maxN=%d", s.maxN)
	if s.pol.timeout == 0 && s.pol.withN {
		// what the window clause still remembers of the past: the largest excess of any run of periods ending now
		sum, owed := 0, 0
		for k := 1; cyc-k+1 >= 0; k++ {
			sum += s.res[cyc-k+1]
			if d := sum - k*s.pol.limit; d > owed {
				owed = d
			}
		}
		fmt.Fprintf(&b, " owed=%d", owed)
	}
	return b.String()
}

// ---- MultiRateLimiter as the MQTT limiter uses it: timeout 0, [requests, bytes] ----

type c09Multi struct {
	rl     *MultiRateLimiter
	start  time.Time
	now    time.Time
	pkts   map[int]int
	bytes  map[int]int
	maxPkt map[int]int
	ops    []c09Op
}

const (
	c09ReqRate  = 2
	c09ByteRate = 10
)

func newC09Multi() *c09Multi {
	s := &c09Multi{pkts: map[int]int{}, bytes: map[int]int{}, maxPkt: map[int]int{}}
	s.start = time.Unix(1700000000, 0)
	s.now = s.start
	c09Clock = s.now
	nowFunc = func() time.Time { return c09Clock }
	s.rl = NewMulti(NewMultiPolicy(0, c09P, []int{c09ReqRate, c09ByteRate}))
	for _, g := range []time.Duration{0, c09P / 2, c09P - 1, c09P, 3*c09P + 1} {
		for _, size := range []int{1, 9, 10, 25} {
			s.ops = append(s.ops, c09Op{g, size})
		}
	}
	return s
}

func (s *c09Multi) NumOps() int        { return len(s.ops) }
func (s *c09Multi) Enabled(i int) bool { return true }
func (s *c09Multi) OpName(i int) string {
	return fmt.Sprintf("after %v packet(%d bytes)", s.ops[i].gap, s.ops[i].n)
}

func (s *c09Multi) Apply(c *mc.Ctx, i int) {
	op := s.ops[i]
	s.now = s.now.Add(op.gap)
	c09Clock = s.now
	ok, w, err := s.rl.AcquirePermission([]int{1, op.n})
	if err != nil {
		c.Failf("multi-error", "%v", err)
	}
	p := int(s.now.Sub(s.start) / c09P)
	if !ok {
		c.AddOutcome("reject")
		return
	}
	if w != 0 {
		// the MQTT limiter treats "permitted" as admitted now (it never sleeps); timeout 0 must mean no wait
		c.Failf("multi-wait-with-timeout-0", "admitted with wait %v although timeout is 0", w)
	}
	s.pkts[p]++
	s.bytes[p] += op.n
	if op.n > s.maxPkt[p] {
		s.maxPkt[p] = op.n
	}
	if s.pkts[p] > c09ReqRate {
		c.Failf("multi-packets-over-rate", "period %d: %d packets admitted, requestRate %d", p, s.pkts[p], c09ReqRate)
	}
	if s.bytes[p] >= c09ByteRate+s.maxPkt[p] {
		c.Failf("multi-bytes-over-rate", "period %d: %d bytes admitted, bytesRate %d, largest packet %d", p, s.bytes[p], c09ByteRate, s.maxPkt[p])
	}
	c.AddOutcome("admit")
}

func (s *c09Multi) Canon() string {
	cyc := int(s.now.Sub(s.start) / c09P)
	t := make([]int, len(s.rl.tokens))
	for i, tok := range s.rl.tokens {
		t[i] = tok - (cyc-s.rl.cycle)*s.rl.policy.LimitForPeriod[i]
		if t[i] < 0 {
			t[i] = 0
		}
	}
	return fmt.Sprintf("tok=%v phase=%d cur=%d/%d/%d", t, int64(s.now.Sub(s.start)%c09P), s.pkts[cyc], s.bytes[cyc], s.maxPkt[cyc])
}

func TestVerifC09(t *testing.T) {
	env := mc.GetEnv()
	depth, depthN, depthM := 8, 6, 5
	if env.Thorough() {
		depth, depthN, depthM = 11, 8, 7
	}
	var jobs []mc.Job
	for _, limit := range []int{1, 2, 3} {
		for _, to := range []time.Duration{0, c09P / 2, c09P, 5 * c09P / 2} {
			pol := c09Pol{limit, to, false}
			jobs = append(jobs, mc.BFSJob(mc.BFSOptions{Job: "bfs/" + pol.String(), MaxDepth: depth}, func() mc.Sys { return newC09Sys(pol) }))
		}
		polN := c09Pol{limit, c09P, true}
		jobs = append(jobs, mc.BFSJob(mc.BFSOptions{Job: "bfs/" + polN.String(), MaxDepth: depthN}, func() mc.Sys { return newC09Sys(polN) }))
		polN0 := c09Pol{limit, 0, true}
		jobs = append(jobs, mc.BFSJob(mc.BFSOptions{Job: "bfs/" + polN0.String(), MaxDepth: depthN}, func() mc.Sys { return newC09Sys(polN0) }))
	}
	jobs = append(jobs, mc.BFSJob(mc.BFSOptions{Job: "bfs/multi-req2-bytes10", MaxDepth: depthM}, func() mc.Sys { return newC09Multi() }))
	mc.RunJobs("C09", jobs)
}
