//go:build verif

package cluster

// C19 — syncer snapshots on a real embedded etcd: every history of puts and deletes up to the bound (keys under and
// outside the watched prefix, same-value puts, delete-then-recreate) x consumers (eager / reads only afterwards) x
// APIs x burst / spaced writes (thorough: x an etcd server stop+start before any operation).  The harness is the
// only writer, so it knows the exact sequence of store contents: every delivered snapshot must be one of them, at
// non-decreasing positions, consecutive snapshots must differ, and a snapshot equal to the final content must arrive
// without further writes.

import (
	"fmt"
	"os"
	"sort"
	"strings"
	"sync"
	"sync/atomic"
	"testing"
	"time"

	"go.etcd.io/etcd/api/v3/mvccpb"
	clientv3 "go.etcd.io/etcd/client/v3"

	"github.com/megaease/easegress/pkg/logger"
	"github.com/megaease/easegress/pkg/zzverif/mc"
)

func init() { logger.InitNop() }

const c19Pull = 100 * time.Millisecond

type c19Op struct {
	kind, key, val string // key: k1, k2, out
}

var c19Ops = []c19Op{{"put", "k1", "v1"}, {"put", "k1", "v2"}, {"del", "k1", ""}, {"put", "k2", "v1"}, {"del", "k2", ""}, {"put", "out", "x"}}

func (o c19Op) String() string {
	if o.kind == "del" {
		return "del " + o.key
	}
	return "put " + o.key + "=" + o.val
}

func c19Canon(m map[string]string) string {
	var l []string
	for k, v := range m {
		l = append(l, k+"="+v)
	}
	sort.Strings(l)
	return "{" + strings.Join(l, ",") + "}"
}

var c19Seq int64

func TestVerifC19(t *testing.T) {
	tmp, _ := os.MkdirTemp("", "verif-c19-")
	mc.OnExit = append(mc.OnExit, func() { os.RemoveAll(tmp) })
	opt := CreateOptionsForTest(tmp)
	opt.ClusterRequestTimeout = "3s" // bounds how long a pull hangs while the server is down (outage job)
	clsI, err := New(opt)
	check(err)
	cls := clsI.(*cluster)
	for i := 0; i < 300; i++ {
		if _, err := cls.getClient(); err == nil {
			break
		}
		time.Sleep(HeartbeatInterval)
	}
	envv := mc.GetEnv()
	L := 3
	apis := []string{"SyncPrefix", "Sync"}
	gaps := []time.Duration{0}
	if envv.Thorough() {
		L = 4
		apis = []string{"SyncPrefix", "Sync", "SyncRawPrefix", "SyncRaw"}
		gaps = []time.Duration{0, 150 * time.Millisecond}
	}
	var outage bool // the etcd server stays down for longer than a pull period plus the request timeout: pulls FAIL
	run := func(withRestart bool, maxLen int, blocked bool) func(c *mc.Ctx) {
		return func(c *mc.Ctx) {
			api := apis[c.Choose(len(apis), "api")]
			lazy := !outage && c.Choose(2, "consumer-reads-only-afterwards") == 1
			gap := gaps[c.Choose(len(gaps), "gap")]
			n := 1 + c.Choose(maxLen, "history-length")
			if gap > 0 && n > 3 {
				c.Outcome("spaced-histories-of-4-not-run") // thorough tier: spaced writes only for histories <= 3
				return
			}
			var ops []c19Op
			nprefix := 0
			if blocked {
				// a consumer that does not read while 13 distinct contents go by: the syncer's 10-slot channel
				// fills up and the syncer blocks in its send; then every continuation of <= maxLen operations as a burst
				lazy, gap = true, 0
				for i := 0; i < 6; i++ {
					ops = append(ops, c19Op{"put", "k1", "v1"}, c19Op{"del", "k1", ""})
				}
				ops = append(ops, c19Op{"put", "k1", "v1"})
				nprefix = len(ops)
			}
			for i := 0; i < n; i++ {
				if outage {
					ops = append(ops, []c19Op{{"put", "k1", "v1"}, {"put", "k2", "v1"}}[c.Choose(2, "op")])
					continue
				}
				ops = append(ops, c19Ops[c.Choose(len(c19Ops), "op")])
			}
			restartBefore := -1
			if withRestart {
				restartBefore = c.Choose(n+1, "restart-etcd-before-op") // n = after the last op
			}
			if outage {
				restartBefore = n - 1 + c.Choose(2, "outage-before-or-after-the-last-op")
			}
			cutOff := outage && c.Choose(2, "fault-kind:server-down|client-cut-off") == 1 // see restart() below
			if !c.Mine() {
				return
			}
			id := atomic.AddInt64(&c19Seq, 1)
			prefix := fmt.Sprintf("/verif/c19/%d-%d/", os.Getpid(), id)
			outside := fmt.Sprintf("/verif/c19x/%d-%d/k", os.Getpid(), id)
			keyOf := func(k string) string {
				if k == "out" {
					return outside
				}
				return prefix + k
			}
			single := api == "Sync" || api == "SyncRaw"
			// view: what this API is supposed to show of the store
			store := map[string]string{}
			view := func() string {
				if single {
					if v, ok := store["k1"]; ok {
						return "{k1=" + v + "}"
					}
					return "{}"
				}
				m := map[string]string{}
				for k, v := range store {
					if k != "out" {
						m[k] = v
					}
				}
				return c19Canon(m)
			}
			contents := []string{view()}
			syn, err := cls.Syncer(c19Pull)
			if err != nil {
				c.Failf("harness:syncer", "%v", err)
			}
			defer syn.Close()
			var mu sync.Mutex
			var got []string
			var drain func()
			push := func(s string) { mu.Lock(); got = append(got, s); mu.Unlock() }
			strip := func(k string) string { return strings.TrimPrefix(k, prefix) }
			switch api {
			case "SyncPrefix":
				ch, _ := syn.SyncPrefix(prefix)
				drain = func() {
					for m := range ch {
						mm := map[string]string{}
						for k, v := range m {
							mm[strip(k)] = v
						}
						push(c19Canon(mm))
					}
				}
			case "SyncRawPrefix":
				ch, _ := syn.SyncRawPrefix(prefix)
				drain = func() {
					for m := range ch {
						mm := map[string]string{}
						for k, v := range m {
							mm[strip(k)] = string(v.Value)
						}
						push(c19Canon(mm))
					}
				}
			case "Sync":
				ch, _ := syn.Sync(prefix + "k1")
				drain = func() {
					for v := range ch {
						if v == nil {
							push("{}")
						} else {
							push("{k1=" + *v + "}")
						}
					}
				}
			case "SyncRaw":
				ch, _ := syn.SyncRaw(prefix + "k1")
				drain = func() {
					for v := range ch {
						var kv *mvccpb.KeyValue = v
						if kv == nil {
							push("{}")
						} else {
							push("{k1=" + string(kv.Value) + "}")
						}
					}
				}
			}
			if !lazy {
				go drain()
			}
			time.Sleep(20 * time.Millisecond) // the subscription is established (initial pull done)
			// cutOff: the member's etcd client loses its server for a while (the client is swapped for one that points
			// to a dead endpoint, the watch of the syncer stays attached to the old one): every periodic pull in the
			// window fails after the request timeout.  Unlike a server stop, which may or may not cancel the watch
			// first (then the syncer sits in re-watching and does not pull), this makes pulls FAIL every time.
			restart := func() {
				if cutOff {
					dead, err := clientv3.New(clientv3.Config{Endpoints: []string{"127.0.0.1:1"}, DialTimeout: time.Second})
					if err != nil {
						c.Failf("harness:dead-client", "%v", err)
					}
					cls.clientMutex.Lock()
					real := cls.client
					cls.client = dead
					cls.clientMutex.Unlock()
					time.Sleep(cls.requestTimeout + 5*c19Pull)
					cls.clientMutex.Lock()
					cls.client = real
					cls.clientMutex.Unlock()
					dead.Close()
					time.Sleep(cls.requestTimeout + 5*c19Pull) // a pull hanging on the dead client runs into its timeout, the next ones succeed
					return
				}
				wg := &sync.WaitGroup{}
				wg.Add(1)
				cls.CloseServer(wg)
				wg.Wait()
				if outage {
					time.Sleep(cls.requestTimeout + 3*c19Pull)
				}
				done, _, err := cls.StartServer()
				if err != nil {
					c.Failf("harness:restart", "%v", err)
				}
				<-done
			}
			for i, o := range ops {
				if i == restartBefore {
					restart()
				}
				var err error
				for try := 0; try < 50; try++ {
					if o.kind == "put" {
						err = cls.Put(keyOf(o.key), o.val)
					} else {
						err = cls.Delete(keyOf(o.key))
					}
					if err == nil {
						break
					}
					time.Sleep(100 * time.Millisecond)
				}
				if err != nil {
					c.Failf("harness:write-failed", "%s: %v", o, err)
				}
				if o.kind == "put" {
					store[o.key] = o.val
				} else {
					delete(store, o.key)
				}
				if v := view(); v != contents[len(contents)-1] {
					contents = append(contents, v)
				}
				if gap > 0 {
					time.Sleep(gap)
				}
				if i < nprefix {
					time.Sleep(40 * time.Millisecond) // every content of the prefix is seen by the syncer on its own
				}
			}
			if restartBefore == len(ops) {
				restart()
			}
			if lazy {
				time.Sleep(3 * c19Pull)
				go drain()
			}
			final := contents[len(contents)-1]
			// convergence: within 100 pull periods a snapshot equal to the final content (nothing is required if the
			// content never was anything but empty)
			deadline := time.Now().Add(100 * c19Pull)
			for {
				mu.Lock()
				// the consumer's view is the last snapshot it got, or "empty" as long as it got none (the syncer
				// delivers nothing for an empty store, also at subscription)
				ok := (len(got) > 0 && got[len(got)-1] == final) || (len(got) == 0 && final == "{}")
				mu.Unlock()
				if ok {
					// stable?  (the final content may equal an earlier one which the syncer is just passing through:
					// [{} {a} {} {b} {}] -- wait one more pull period and look again)
					mu.Lock()
					n0 := len(got)
					mu.Unlock()
					time.Sleep(c19Pull + 30*time.Millisecond)
					mu.Lock()
					stable := len(got) == n0
					mu.Unlock()
					if stable || time.Now().After(deadline) {
						break
					}
					continue
				}
				if time.Now().After(deadline) {
					mu.Lock()
					g := append([]string{}, got...)
					mu.Unlock()
					c.Failf("no-convergence:"+api, "history %v (%s, lazy consumer %v, gap %v, restart before op %d): store contents %v; snapshots delivered %v; the final content %s did not arrive within %v", ops, api, lazy, gap, restartBefore, contents, g, final, 100*c19Pull)
				}
				time.Sleep(5 * time.Millisecond)
			}
			// (the stability wait above already covered "one more pull period: nothing spurious may follow")
			mu.Lock()
			snaps := append([]string{}, got...)
			mu.Unlock()
			desc := fmt.Sprintf("history %v (%s, lazy consumer %v, gap %v, restart before op %d): store contents %v; snapshots delivered %v", ops, api, lazy, gap, restartBefore, contents, snaps)
			c.Note("%s", desc)
			pos := 0
			for i, s := range snaps {
				if i > 0 && s == snaps[i-1] {
					c.Failf("consecutive-snapshots-equal:"+api, "snapshot %d repeats its predecessor\n%s", i+1, desc)
				}
				found := -1
				for j := pos; j < len(contents); j++ {
					if contents[j] == s {
						found = j
						break
					}
				}
				if found < 0 {
					known := false
					for _, cnt := range contents {
						known = known || cnt == s
					}
					if known {
						c.Failf("snapshot-out-of-order:"+api, "snapshot %d (%s) is older than one delivered before\n%s", i+1, s, desc)
					}
					c.Failf("snapshot-never-was-the-content:"+api, "snapshot %d (%s) is not a content the store ever had\n%s", i+1, s, desc)
				}
				pos = found
			}
			if len(snaps) > 0 && snaps[len(snaps)-1] != final {
				c.Failf("last-snapshot-not-final:"+api, "%s", desc)
			}
			c.Outcome(fmt.Sprintf("%s-contents%d-snapshots%d", api, len(contents), len(snaps)))
		}
	}
	mk := func(name string, f func(c *mc.Ctx), depth int) mc.Job {
		return mc.Job{Name: name,
			Run: func(r *mc.Result, e *mc.Env) {
				mc.Explore(r, mc.Options{Job: name, MaxDev: -1, SubShard: e.Shard, SubN: e.NShards, SubDepth: depth, Env: e}, f)
			},
			Replay: func(ch []int) (*mc.Failure, []string) { return mc.ReplayOne(f, ch) }}
	}
	outageLen := 1
	if envv.Thorough() {
		outageLen = 2
	}
	outageRun := run(true, outageLen, false)
	jobs := []mc.Job{mk("histories", run(false, L, false), 12), mk("continuations-after-the-consumer-stalled", run(false, 2, true), 12),
		mk("histories-with-etcd-outage", func(c *mc.Ctx) {
			outage = true
			defer func() { outage = false }()
			outageRun(c)
		}, 12)}
	if envv.Thorough() {
		jobs = append(jobs, mk("histories-with-etcd-restart", run(true, 2, false), 12))
	}
	mc.OnExit = append(mc.OnExit, func() {
		wg := &sync.WaitGroup{}
		wg.Add(1)
		cls.Close(wg)
	})
	mc.RunJobsAll("C19", jobs)
}
