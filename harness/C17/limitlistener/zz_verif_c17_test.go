//go:build verif

//go:debug asynctimerchan=0

package limitlistener

// C17 (HTTP part) — LimitListener + Semaphore under the controlled scheduler: dials, an acceptor
// loop (as http.Server.Serve), closes and SetMaxConnection calls, every schedule at gate granularity
// (harness yields, the semaphore's mutex, the goroutine SetMaxCount starts) up to the preemption bound.

import (
	"fmt"
	"net"
	"testing"
	"testing/synctest"

	"github.com/megaease/easegress/pkg/zzverif/mc"
	"github.com/megaease/easegress/pkg/zzverif/vnet"
	"github.com/megaease/easegress/pkg/zzverif/vrt"
)

type c17Scenario struct {
	name    string
	cap0    uint32
	dials   int
	closes  []int    // close the k-th accepted connection (if it exists when the actor runs)
	setmax  []uint32 // SetMaxConnection calls, each by its own actor
	twice   bool     // the first closer closes its connection twice
	accepts int      // number of acceptor goroutines
	failAt  int      // the inner listener's Accept fails (once, temporarily) at this call (1-based; 0: never)
}

// flakyListener fails one Accept call with a temporary error, as a real listener does e.g. on EMFILE.
type flakyListener struct {
	net.Listener
	calls, failAt int
	onClose       func() // called when an accepted connection REALLY closes (its own Close, under the LimitListener's wrapper)
}

// c17Conn is the accepted connection as the operating system would see it: it stays open until its own Close runs,
// whatever the wrapper above it has already released.
type c17Conn struct {
	net.Conn
	closed  bool
	onClose func()
}

func (k *c17Conn) Close() error {
	vrt.Yield("conn-close") // closing takes time: other goroutines may run between what the wrapper does before and after it
	if !k.closed {
		k.closed = true
		if k.onClose != nil {
			k.onClose()
		}
	}
	return k.Conn.Close()
}

type tempErr struct{}

func (tempErr) Error() string   { return "verif: temporary accept failure" }
func (tempErr) Timeout() bool   { return false }
func (tempErr) Temporary() bool { return true }

func (f *flakyListener) Accept() (net.Conn, error) {
	f.calls++
	if f.calls == f.failAt {
		return nil, tempErr{}
	}
	conn, err := f.Listener.Accept()
	if err != nil {
		return nil, err
	}
	return &c17Conn{Conn: conn, onClose: f.onClose}, nil
}

func TestVerifC17(t *testing.T) {
	synctest.Test(t, func(t *testing.T) {
		vrt.SetMode(vrt.ModeFree)
		vnet.InMemory = true
		env := mc.GetEnv()
		maxDev := 2
		if env.Thorough() {
			maxDev = 3
		}
		scen := []c17Scenario{
			{"cap1-3dials-1close", 1, 3, []int{0}, nil, false, 1, 0},
			{"cap2-4dials-2closes", 2, 4, []int{0, 1}, nil, false, 1, 0},
			{"cap1-2dials-close-twice", 1, 3, []int{0}, nil, true, 1, 0},
			{"cap1-grow2", 1, 3, nil, []uint32{2}, false, 1, 0},
			{"cap2-shrink1-below-usage", 2, 4, []int{0, 1}, []uint32{1}, false, 1, 0},
			{"cap2-shrink1-then-grow3", 2, 4, []int{0}, []uint32{1, 3}, false, 1, 0},
			{"cap1-two-acceptors", 1, 3, []int{0}, nil, false, 2, 0},
			{"cap1-inner-accept-fails-once", 1, 3, []int{0}, nil, false, 1, 1},
			{"cap2-inner-accept-fails-second", 2, 3, []int{0}, nil, false, 1, 2},
			{"cap1-grow2-two-acceptors", 1, 3, nil, []uint32{2}, false, 2, 0},
			{"cap2-shrink1-same1-grow2", 2, 4, nil, []uint32{1, 1, 2}, false, 1, 0},
		}
		var jobs []mc.Job
		for i, sc := range scen {
			sc := sc
			port := fmt.Sprintf(":%d", 30000+i)
			run := func(c *mc.Ctx) {
				innerL, _ := vnet.Listen("tcp", port)
				inner := innerL.(*vnet.MemListener)
				open := 0
				ll := NewLimitListener(&flakyListener{Listener: inner, failAt: sc.failAt, onClose: func() { open-- }}, sc.cap0)
				var accepted []net.Conn
				closedTwice := map[int]bool{}
				capNow := int(sc.cap0)
				pending := 0 // SetMaxConnection calls issued and possibly not yet applied
				maxOpen := 0
				var viol string
				sch := vrt.New(c)
				// acceptor loops: background goroutines with gates (they may stay blocked for ever)
				stop := false
				for a := 0; a < sc.accepts; a++ {
					sch.GoBG(fmt.Sprintf("acceptor%d", a), func() {
						for !stop {
							vrt.Yield("accept")
							conn, err := ll.Accept()
							if _, temporary := err.(tempErr); temporary {
								continue // http.Server.Serve retries temporary errors
							}
							if err != nil {
								return
							}
							// Accept returned: this connection has been admitted.  open is exact here: it is decremented
							// by the connection's own Close (c17Conn), i.e. not before the socket is really closed.
							before := open
							if len(sc.setmax) == 0 && before >= int(sc.cap0) {
								viol = fmt.Sprintf("connection admitted while %d connections were open, cap %d (unchanged)", before, sc.cap0)
							}
							open++
							if open > maxOpen {
								maxOpen = open
							}
							accepted = append(accepted, conn)
						}
					})
				}
				// the dials are symmetric: one actor issues them one after the other (each dial itself waits in
				// the background until an acceptor takes it)
				sch.Go("dialer", func() {
					for d := 0; d < sc.dials; d++ {
						if d > 0 {
							vrt.Yield("dial")
						}
						go func() { inner.Dial() }()
					}
				})
				for k, idx := range sc.closes {
					k, idx := k, idx
					sch.Go(fmt.Sprintf("close%d", idx), func() {
						if idx < len(accepted) && !closedTwice[idx] {
							closedTwice[idx] = true
							accepted[idx].Close() // open is decremented when the connection itself closes (c17Conn)
							if sc.twice && k == 0 {
								vrt.Yield("close-again")
								accepted[idx].Close()
							}
						}
					})
				}
				var dones []chan struct{}
				for _, n := range sc.setmax {
					n := n
					sch.Go(fmt.Sprintf("setmax%d", n), func() {
						pending++
						// what LimitListener.SetMaxConnection does, keeping the completion channel.  No gate lies
						// between the semaphore's critical section and the next line, so capNow follows the order
						// in which the calls took the semaphore's lock.
						dones = append(dones, ll.sem.SetMaxCount(int64(n)))
						capNow = int(n)
					})
				}
				_ = dones
				if msg := sch.Run(); msg != "" {
					c.Failf("scheduler:"+msg[:8], "%s\n%s", msg, sch.TraceString())
				}
				// quiescence: everything that can happen has happened
				synctest.Wait()
				c.Note("schedule: %s", sch.TraceString())
				if viol != "" {
					c.Failf("cap-exceeded-with-unchanged-cap", "%s: %s\nschedule: %s", sc.name, viol, sch.TraceString())
				}
				// a cap change is applied asynchronously; one that is still pending at quiescence (a shrink waiting
				// for connections to be closed, or a change queued behind it) leaves the capacity in transition
				// and the statement then promises nothing beyond "no admission above the largest cap involved"
				inTransition := false
				for _, d := range dones {
					select {
					case <-d:
					default:
						inTransition = true
					}
				}
				if inTransition {
					if maxOpenAfterShrink(open, capNow, sc) {
						c.Failf("admitted-above-every-cap", "%s: %d connections open, more than any cap that was ever set\nschedule: %s", sc.name, open, sch.TraceString())
					}
					c.Outcome(fmt.Sprintf("in-transition accepted=%d open=%d", len(accepted), open))
					stop = true
					ll.Close()
					for _, cn := range accepted {
						cn.Close()
					}
					synctest.Wait()
					return
				}
				// all cap changes have been applied.  Dials still waiting:
				waiting := sc.dials - len(accepted)
				if waiting > 0 && open < capNow {
					c.Failf("free-capacity-not-usable", "%s: quiescent with %d dial(s) waiting, %d open connections, cap %d: capacity is not usable\nschedule: %s", sc.name, waiting, open, capNow, sch.TraceString())
				}
				// probe: one more dial + close cycle must show the final capacity exactly:
				// open up to cap must be admitted, the next one held back
				extra := 0
				for open+0 < capNow+1 && extra < 6 {
					before := len(accepted)
					go func() { inner.Dial() }()
					synctest.Wait()
					if len(accepted) == before {
						break
					}
					extra++
				}
				if len(sc.setmax) > 0 && open > capNow && open > maxOpen {
					c.Failf("admitted-above-new-cap", "%s: all cap changes applied (cap %d), yet the probe got %d connections open (%d before)\nschedule: %s", sc.name, capNow, open, maxOpen, sch.TraceString())
				}
				if open < capNow {
					c.Failf("final-capacity-too-small", "%s: final cap %d but only %d connections can be open at once\nschedule: %s", sc.name, capNow, open, sch.TraceString())
				}
				if open > capNow && open > maxOpen {
					c.Failf("final-capacity-too-large", "%s: final cap %d but %d connections got open (max before the probe %d)\nschedule: %s", sc.name, capNow, open, maxOpen, sch.TraceString())
				}
				c.Outcome(fmt.Sprintf("accepted=%d open=%d", len(accepted), open))
				stop = true
				ll.Close()
				for _, cn := range accepted {
					cn.Close()
				}
				synctest.Wait()
			}
			md := maxDev
			if len(sc.setmax) >= 2 || sc.accepts > 1 || sc.dials >= 4 {
				md-- // the larger scenarios have ~10x more schedules per preemption
			}
			jobs = append(jobs, mc.ExploreJob(mc.Options{Job: "ll/" + sc.name, MaxDev: md}, run))
		}
		mc.RunJobs("C17", jobs)
	})
}

// maxOpenAfterShrink: open connections may legitimately exceed a shrunk cap only if they were
// admitted under an earlier, larger cap.
func maxOpenAfterShrink(open, capNow int, sc c17Scenario) bool {
	largest := int(sc.cap0)
	for _, n := range sc.setmax {
		if int(n) > largest {
			largest = int(n)
		}
	}
	return open > largest
}
