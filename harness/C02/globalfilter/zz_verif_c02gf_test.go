//go:build verif

package globalfilter

// C02, GlobalFilter unit — "a GlobalFilter's before and after flows run around the main flow under the same
// rules (an END anywhere stops all three)": every (before, main, after) triple within the bound is configured
// through the real GlobalFilter object (spec validation through supervisor.NewSpec, Init or Init+Inherit),
// executed by GlobalFilter.Handle on a real main Pipeline for every vector of filter results and compared with
// the reference interpreter of harness/common/flowmodel.

import (
	"fmt"
	"strings"
	"testing"

	"github.com/megaease/easegress/pkg/object/pipeline"
	"github.com/megaease/easegress/pkg/supervisor"
	"github.com/megaease/easegress/pkg/zzverif/mc"
)

// side is the before or after part of a GlobalFilter spec.
type gfSide struct {
	present bool
	noFlow  bool // filters declared but no flow: "the same rules" = the filters in declared order
	flow    []vNode
}

func (s gfSide) effective(fs []string) []vNode {
	if !s.present {
		return nil
	}
	if s.noFlow {
		var eff []vNode
		for _, f := range fs {
			eff = append(eff, vNode{filter: f})
		}
		return eff
	}
	return s.flow
}

func gfSideYAML(key string, s gfSide, fs []string) string {
	if !s.present {
		return ""
	}
	var b strings.Builder
	b.WriteString(key + ":\n")
	if !s.noFlow {
		b.WriteString("  flow:\n" + flowYAML(s.flow, "  "))
	}
	b.WriteString("  filters:\n")
	for _, f := range fs {
		fmt.Fprintf(&b, "  - name: %s\n    kind: VKind\n", f)
	}
	return b.String()
}

func gfYAML(before, after gfSide, fs []string) string {
	return "name: gf\nkind: GlobalFilter\n" + gfSideYAML("beforePipeline", before, fs) + gfSideYAML("afterPipeline", after, fs)
}

func genSide(c *mc.Ctx, tag string) gfSide {
	s := gfSide{present: c.Choose(2, tag+"?") == 0}
	if !s.present {
		return s
	}
	if c.ChooseDev(2, tag+".no-flow") == 1 {
		s.noFlow = true
		return s
	}
	s.flow = genFlow(c, tag, 1, 2)
	return s
}

type gfBuilt struct {
	ss  *supervisor.Spec
	err error
}

var (
	gfSpecCache = map[string]gfBuilt{}
	gfMainCache = map[string]*pipeline.Pipeline{}
	gfInstCache = map[string]*GlobalFilter{}
)

func gfSpec(y string) (b gfBuilt) {
	if c, ok := gfSpecCache[y]; ok {
		return c
	}
	if len(gfSpecCache) > 4000 {
		gfSpecCache = map[string]gfBuilt{}
	}
	defer func() { gfSpecCache[y] = b }()
	defer func() {
		if p := recover(); p != nil {
			b.err = fmt.Errorf("PANIC in NewSpec: %v", p)
		}
	}()
	b.ss, b.err = supervisor.NewSpec(y)
	return
}

func gfMain(c *mc.Ctx, flow []vNode, fs []string) *pipeline.Pipeline {
	y := pipelineYAML("main", flow, fs)
	if p, ok := gfMainCache[y]; ok {
		return p
	}
	ss, err := supervisor.NewSpec(y)
	if err != nil {
		return nil
	}
	p := &pipeline.Pipeline{}
	p.Init(ss, nil)
	gfMainCache[y] = p
	return p
}

func drawnResults(c *mc.Ctx) func() string {
	var drawn []string
	for _, ch := range c.Trace {
		if ch.Label == "result" {
			drawn = append(drawn, vResults[ch.Pick])
		}
	}
	k := 0
	return func() string {
		k++
		if k-1 < len(drawn) {
			return drawn[k-1]
		}
		return ""
	}
}

func TestVerifC02gf(t *testing.T) {
	env := mc.GetEnv()
	fs := []string{"f1", "f2"}
	// handle runs one request through gf around main and compares with the reference
	handle := func(c *mc.Ctx, what string, gf *GlobalFilter, main *pipeline.Pipeline, before, after gfSide, mainFlow []vNode, y string) *refRun {
		mark := len(c.Trace)
		vRec = nil
		ctx := newVCtx()
		gf.Handle(ctx, main)
		var drawn []string
		for _, ch := range c.Trace[mark:] {
			if ch.Label == "result" {
				drawn = append(drawn, vResults[ch.Pick])
			}
		}
		k := 0
		next := func() string {
			k++
			if k-1 < len(drawn) {
				return drawn[k-1]
			}
			return ""
		}
		ref := &refRun{}
		for _, fl := range [][]vNode{before.effective(fs), mainFlow, after.effective(fs)} {
			if !ref.ended {
				refExec(fl, next, ref)
			}
		}
		if fmt.Sprint(vRec) != fmt.Sprint(ref.inv) {
			c.Failf("globalfilter:invocation-sequence", "%s: filters invoked (filter, namespace) %v, reference %v\n%s", what, vRec, ref.inv, y)
		}
		if names := statNames(ctx.Tags()); fmt.Sprint(names) != fmt.Sprint(ref.names) {
			c.Failf("globalfilter:stat-names", "%s: stats tag names %v, reference %v (tags %q)\n%s", what, names, ref.names, ctx.Tags(), y)
		}
		return ref
	}
	build := func(c *mc.Ctx, before, after gfSide) (*supervisor.Spec, string, bool) {
		y := gfYAML(before, after, fs)
		b := gfSpec(y)
		want := (!before.present || before.noFlow || refValid(before.flow, fs)) && (!after.present || after.noFlow || refValid(after.flow, fs))
		if (b.err == nil) != want {
			c.Failf(fmt.Sprintf("globalfilter:validate:accepted=%v,reference=%v", b.err == nil, want), "validation accepted=%v (err=%v), reference predicate says valid=%v\n%s", b.err == nil, b.err, want, y)
		}
		return b.ss, y, b.err == nil
	}
	// job 1: fresh GlobalFilter
	fresh := func(c *mc.Ctx) {
		vCtx = c
		before, after := genSide(c, "before"), genSide(c, "after")
		mainFlow := genFlow(c, "main", 1, 2)
		if !refValid(mainFlow, fs) {
			c.Outcome("main-rejected")
			return
		}
		ss, y, ok := build(c, before, after)
		if !ok {
			c.Outcome("rejected")
			return
		}
		main := gfMain(c, mainFlow, fs)
		if main == nil {
			c.Failf("main-spec-rejected", "reference-valid main flow rejected\n%s", pipelineYAML("main", mainFlow, fs))
		}
		gfy := y
		y += "---\n" + pipelineYAML("main", mainFlow, fs)
		c.Note("%s", y)
		gf := gfInstCache[gfy]
		if gf == nil {
			if len(gfInstCache) > 4000 {
				gfInstCache = map[string]*GlobalFilter{}
			}
			gf = &GlobalFilter{}
			gf.Init(ss)
			gfInstCache[gfy] = gf
		}
		ref := handle(c, "GlobalFilter.Handle", gf, main, before, after, mainFlow, y)
		c.Outcome(fmt.Sprintf("gf-ran%d-ended=%v", len(ref.inv), ref.ended))
	}
	// job 2: generation change: Init(A), optionally one request, Inherit(B): requests are then handled by B's flows
	sideMenu := []gfSide{
		{},
		{present: true, flow: []vNode{{filter: "f1"}}},
		{present: true, flow: []vNode{{filter: "f2", alias: "x", ns: "n1"}}},
		{present: true, flow: []vNode{{filter: "f1"}, {filter: "END"}}},
		{present: true, noFlow: true},
		{present: true, flow: []vNode{{filter: "f2"}, {filter: "f1"}}},
	}
	inherit := func(c *mc.Ctx) {
		vCtx = c
		vFixedResult = true
		defer func() { vFixedResult = false }()
		var sides [4]gfSide
		for i, tag := range []string{"A.before", "A.after", "B.before", "B.after"} {
			sides[i] = sideMenu[c.Choose(len(sideMenu), tag)]
		}
		beforeA, afterA, beforeB, afterB := sides[0], sides[1], sides[2], sides[3]
		mainFlow := []vNode{{filter: "f1", alias: "m"}}
		ssA, yA, ok := build(c, beforeA, afterA)
		if !ok {
			c.Failf("globalfilter:menu-spec-rejected", "%s", yA)
		}
		ssB, yB, ok := build(c, beforeB, afterB)
		if !ok {
			c.Failf("globalfilter:menu-spec-rejected", "%s", yB)
		}
		y := yA + "--- then ---\n" + yB
		c.Note("%s", y)
		main := gfMain(c, mainFlow, fs)
		a := &GlobalFilter{}
		a.Init(ssA)
		if c.Choose(2, "request-on-A") == 1 {
			handle(c, "generation A", a, main, beforeA, afterA, mainFlow, y)
		}
		b := &GlobalFilter{}
		b.Inherit(ssB, a)
		ref := handle(c, "generation B after Inherit", b, main, beforeB, afterB, mainFlow, y)
		c.Outcome(fmt.Sprintf("inherit-ran%d-ended=%v", len(ref.inv), ref.ended))
	}
	devF := 1
	if env.Thorough() {
		devF = 2
	}
	mk := func(name string, maxDev int, run func(*mc.Ctx)) mc.Job {
		return mc.Job{Name: name,
			Run: func(r *mc.Result, env *mc.Env) {
				mc.Explore(r, mc.Options{Job: name, MaxDev: maxDev, SubShard: env.Shard, SubN: env.NShards, SubDepth: 6, Env: env}, run)
			},
			Replay: func(ch []int) (*mc.Failure, []string) { return mc.ReplayOne(run, ch) }}
	}
	mc.RunJobsAll("C02", []mc.Job{mk("globalfilter", devF, fresh), mk("globalfilter-inherit", -1, inherit)})
}
