//go:build verif

//go:debug asynctimerchan=0

package supervisor

// C20 — every sequence of configuration snapshots (names a,b x {absent, K1 v1, K1 v2, K2 v1}) through the real
// ObjectRegistry.run -> applyConfig -> watcher -> Supervisor.run -> handleEvent chain, with at most one
// injected panic in a lifecycle callback, in a synctest bubble (quiescence = synctest.Wait).

import (
	"fmt"
	"os"
	"sort"
	"strings"
	"sync"
	"testing"
	"testing/synctest"
	"time"

	"github.com/megaease/easegress/pkg/cluster"
	"github.com/megaease/easegress/pkg/cluster/clustertest"
	"github.com/megaease/easegress/pkg/logger"
	"github.com/megaease/easegress/pkg/option"
	"github.com/megaease/easegress/pkg/zzverif/mc"
)

type vCall struct {
	op, name, tag, pred string
}

func (c vCall) String() string {
	if c.op == "Inherit" {
		return fmt.Sprintf("Inherit(%s %s <- %s)", c.name, c.tag, c.pred)
	}
	return fmt.Sprintf("%s(%s %s)", c.op, c.name, c.tag)
}

var (
	c20Ctx      *mc.Ctx
	c20Calls    []vCall
	c20Panicked string // name whose callback panicked ("" = none)
	c20Serial   int
)

type vCtlSpec struct {
	V int `yaml:"v"`
}

type vCtl struct {
	kind string
	tag  string
	name string
}

func (k *vCtl) Category() ObjectCategory { return CategoryBusinessController }
func (k *vCtl) DefaultSpec() interface{} { return &vCtlSpec{} }
func (k *vCtl) Status() *Status          { return &Status{} }

func (k *vCtl) record(op string, spec *Spec, pred string) {
	if spec != nil {
		k.name = spec.Name()
		c20Serial++
		k.tag = fmt.Sprintf("%s.v%d#%d", spec.Kind(), spec.ObjectSpec().(*vCtlSpec).V, c20Serial)
	}
	c20Calls = append(c20Calls, vCall{op, k.name, k.tag, pred})
	if c20Panicked == "" && c20Ctx.ChooseDev(2, "panic-in-callback") == 1 {
		c20Panicked = k.name
		panic("verif: injected panic in " + op)
	}
}

func tagOf(o Object) string {
	switch x := o.(type) {
	case *vK1:
		return x.tag
	case *vK2:
		return x.tag
	}
	return fmt.Sprintf("%T", o)
}

type vK1 struct{ vCtl }
type vK2 struct{ vCtl }

func (k *vK1) Kind() string     { return "VK1" }
func (k *vK1) Init(spec *Spec)  { k.record("Init", spec, "") }
func (k *vK1) Close()           { k.record("Close", nil, "") }
func (k *vK1) Inherit(spec *Spec, prev Object) {
	pt := tagOf(prev)
	_ = prev.(*vK1) // what every real controller does with its predecessor
	k.record("Inherit", spec, pt)
}
func (k *vK2) Kind() string    { return "VK2" }
func (k *vK2) Init(spec *Spec) { k.record("Init", spec, "") }
func (k *vK2) Close()          { k.record("Close", nil, "") }
func (k *vK2) Inherit(spec *Spec, prev Object) {
	pt := tagOf(prev)
	_ = prev.(*vK2)
	k.record("Inherit", spec, pt)
}

func init() {
	logger.InitNop()
	Register(&vK1{})
	Register(&vK2{})
}

type c20Entry struct {
	kind string
	v    int
}

var c20Entries = []c20Entry{{}, {"VK1", 1}, {"VK1", 2}, {"VK2", 1}}

func (e c20Entry) String() string {
	if e.kind == "" {
		return "-"
	}
	return fmt.Sprintf("%s.v%d", e.kind, e.v)
}

type c20Live struct {
	e   c20Entry
	tag string // tag of the live generation (learned from the recorded Init/Inherit)
}

func TestVerifC20(t *testing.T) {
	home, _ := os.MkdirTemp("", "verif-c20-")
	defer os.RemoveAll(home)
	synctest.Test(t, func(t *testing.T) {
		env := mc.GetEnv()
		L := 3
		if env.Thorough() {
			L = 4
		}
		names := []string{"a", "b"}
		layout := &cluster.Layout{}
		prefix := layout.ConfigObjectPrefix()
		run := func(c *mc.Ctx) {
			c20Ctx, c20Calls, c20Panicked, c20Serial = c, nil, "", 0
			syncCh := make(chan map[string]string, 10)
			cls := &clustertest.MockedCluster{
				MockedLayout:    func() *cluster.Layout { return layout },
				MockedGetPrefix: func(string) (map[string]string, error) { return map[string]string{}, nil },
				MockedSyncer: func(time.Duration) (cluster.Syncer, error) {
					return &clustertest.MockedSyncer{MockedSyncPrefix: func(string) (<-chan map[string]string, error) { return syncCh, nil }}, nil
				},
			}
			super := MustNew(&option.Options{AbsHomeDir: home}, cls)
			defer func() {
				wg := &sync.WaitGroup{}
				wg.Add(1)
				super.Close(wg)
				synctest.Wait()
			}()
			synctest.Wait()
			live := map[string]*c20Live{}
			checked := 0
			for step := 0; step < L; step++ {
				snap := map[string]c20Entry{}
				cfg := map[string]string{}
				var desc []string
				for _, n := range names {
					e := c20Entries[c.Choose(len(c20Entries), "entry-"+n)]
					desc = append(desc, n+"="+e.String())
					if e.kind != "" {
						snap[n] = e
						cfg[prefix+n] = fmt.Sprintf("name: %s\nkind: %s\nv: %d\n", n, e.kind, e.v)
					}
				}
				c.Note("snapshot %d: %s", step+1, strings.Join(desc, " "))
				syncCh <- cfg
				synctest.Wait()
				calls := c20Calls[checked:]
				checked = len(c20Calls)
				for _, n := range names {
					var got []vCall
					for _, cl := range calls {
						if cl.name == n {
							got = append(got, cl)
						}
					}
					// a callback of this name may have panicked (now or in an earlier snapshot): the call is in the record
					// like any other, and the lifecycle goes on as if it had returned: e.g. an object whose Init
					// panicked is still closed exactly once when its name disappears
					prev, cur := live[n], snap[n]
					var want []string
					switch {
					case prev == nil && cur.kind == "":
					case prev == nil:
						want = []string{"Init"}
					case cur.kind == "":
						want = []string{"Close(" + prev.tag + ")"}
					case prev.e == cur:
					case prev.e.kind == cur.kind:
						want = []string{"Inherit(<-" + prev.tag + ")"}
					default:
						want = []string{"Close(" + prev.tag + ")", "Init"}
					}
					var have []string
					newTag := ""
					for _, g := range got {
						switch g.op {
						case "Init":
							have = append(have, "Init")
							newTag = g.tag
						case "Inherit":
							have = append(have, "Inherit(<-"+g.pred+")")
							newTag = g.tag
						case "Close":
							have = append(have, "Close("+g.tag+")")
						}
					}
					if strings.Join(have, ",") != strings.Join(want, ",") {
						trans := "same-kind"
						if prev != nil && cur.kind != "" && prev.e.kind != cur.kind {
							trans = "kind-change"
						} else if prev == nil {
							trans = "appear"
						} else if cur.kind == "" {
							trans = "disappear"
						} else if prev.e == cur {
							trans = "unchanged"
						}
						c.Failf("lifecycle:"+trans, "snapshot %d, name %s (%v -> %s): callbacks %v, expected %v", step+1, n, prevStr(prev), cur, have, want)
					}
					if cur.kind == "" {
						delete(live, n)
					} else if newTag != "" {
						live[n] = &c20Live{cur, newTag}
					}
					// live set == latest snapshot
					ent, ok := super.GetBusinessController(n)
					if ok != (cur.kind != "") {
						c.Failf("live-set-differs", "snapshot %d: controller %s present=%v, snapshot has it=%v", step+1, n, ok, cur.kind != "")
					}
					if ok && (ent.Spec().Kind() != cur.kind || ent.Spec().ObjectSpec().(*vCtlSpec).V != cur.v) {
						c.Failf("live-set-differs", "snapshot %d: controller %s is %s v%d, snapshot says %s", step+1, n, ent.Spec().Kind(), ent.Spec().ObjectSpec().(*vCtlSpec).V, cur)
					}
				}
			}
			var ks []string
			for _, cl := range c20Calls {
				ks = append(ks, cl.op)
			}
			sort.Strings(ks)
			c.Outcome(fmt.Sprintf("%s panic=%v", strings.Join(ks, ""), c20Panicked != ""))
		}
		job := mc.Job{Name: "snapshots",
			Run: func(r *mc.Result, env *mc.Env) {
				mc.Explore(r, mc.Options{Job: "snapshots", MaxDev: 1, SubShard: env.Shard, SubN: env.NShards, SubDepth: 3, Env: env}, run)
			},
			Replay: func(ch []int) (*mc.Failure, []string) { return mc.ReplayOne(run, ch) }}
		mc.RunJobsAll("C20", []mc.Job{job})
	})
}

func prevStr(p *c20Live) string {
	if p == nil {
		return "-"
	}
	return p.e.String()
}
