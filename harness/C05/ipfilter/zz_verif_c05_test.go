//go:build verif

package ipfilter

// C05 part 1 — every allow/block spec from a menu x every client address, against
// net.IPNet.Contains + the decision table of the statement.

import (
	"fmt"
	"net"
	"strings"
	"testing"

	"github.com/megaease/easegress/pkg/logger"
	"github.com/megaease/easegress/pkg/zzverif/mc"
)

func init() { logger.InitNop() }

const (
	c05A4 = "10.1.2.3"
	c05A6 = "2001:db8::1"
)

// refContains: standard prefix semantics.
func refContains(entry string, client net.IP) bool {
	if ip := net.ParseIP(entry); ip != nil {
		return ip.Equal(client)
	}
	_, n, err := net.ParseCIDR(entry)
	if err != nil {
		panic(err)
	}
	return n.Contains(client)
}

func refDenied(allow, block []string, blockByDefault bool, client string) bool {
	ip := net.ParseIP(client)
	a, b := false, false
	for _, e := range allow {
		a = a || refContains(e, ip)
	}
	for _, e := range block {
		b = b || refContains(e, ip)
	}
	switch {
	case b && !a:
		return true
	case a && !b:
		return false
	}
	return blockByDefault
}

func flipBit(ip net.IP, bit int) net.IP {
	out := append(net.IP{}, ip...)
	out[bit/8] ^= 1 << (7 - uint(bit%8))
	return out
}

func c05Clients() []string {
	var cs []string
	a4 := net.ParseIP(c05A4).To4()
	cs = append(cs, a4.String())
	for i := 0; i < 32; i++ {
		cs = append(cs, flipBit(a4, i).String())
	}
	a6 := net.ParseIP(c05A6)
	cs = append(cs, a6.String())
	for i := 0; i < 128; i++ {
		cs = append(cs, flipBit(a6, i).String())
	}
	cs = append(cs, "::ffff:"+c05A4, "::ffff:10.1.2.2")
	// neighbours of the short-form IPv6 addresses of the menu ("::1", "fd00::1": two colons only)
	for _, a := range []string{"fd00::1", "::1"} {
		ip := net.ParseIP(a)
		cs = append(cs, ip.String())
		for _, bit := range []int{127, 126, 112, 64, 63, 33, 32, 31, 16, 8, 0} {
			cs = append(cs, flipBit(ip, bit).String())
		}
	}
	return cs
}

var c05Menu = []string{
	"10.1.2.3", "10.1.2.3/32", "10.1.2.0/24", "10.1.2.2/31", "10.0.0.0/8", "0.0.0.0/0", "10.1.2.3/25", "10.1.2.128/25",
	"2001:db8::1", "2001:db8::/32", "2001:db8::1/128", "::/0", "2001:db8::/127", "2001:db8:0:0:8000::/65",
	"fd00::1", "::1",
}

func subsets(n, max int) [][]int {
	out := [][]int{{}}
	for i := 0; i < n; i++ {
		out = append(out, []int{i})
	}
	if max >= 2 {
		for i := 0; i < n; i++ {
			for j := i + 1; j < n; j++ {
				out = append(out, []int{i, j})
			}
		}
	}
	return out
}

func pick(idx []int) []string {
	var s []string
	for _, i := range idx {
		s = append(s, c05Menu[i])
	}
	return s
}

func c05Check(c *mc.Ctx, res *mc.Result, allow, block []string, bbd bool, clients []string) {
	f := New(&Spec{BlockByDefault: bbd, AllowIPs: allow, BlockIPs: block})
	for _, cl := range clients {
		want := refDenied(allow, block, bbd, cl)
		got := !f.Allow(cl)
		res.Outcomes[fmt.Sprintf("denied=%v", want)]++
		if got != want {
			fam := "v4"
			if strings.Contains(cl, ":") {
				fam = "v6"
			}
			if strings.HasPrefix(cl, "::ffff:") {
				fam = "v4-mapped"
			}
			c.Note("client %s", cl)
			c.Failf(fmt.Sprintf("decision:want-denied=%v,client=%s", want, fam),
				"allowIPs=%v blockIPs=%v blockByDefault=%v client=%s: denied=%v, reference says %v", allow, block, bbd, cl, got, want)
		}
	}
	res.Count("decisions", int64(len(clients)))
}

func TestVerifC05ipfilter(t *testing.T) {
	env := mc.GetEnv()
	clients := c05Clients()
	max := 1
	if env.Thorough() {
		max = 2
	}
	subs := subsets(len(c05Menu), 2)
	subsB := subsets(len(c05Menu), max)
	var res *mc.Result
	runSpecs := func(c *mc.Ctx) {
		ai := c.Choose(len(subs), "allow")
		bi := c.Choose(len(subsB), "block")
		bbd := c.Choose(2, "blockByDefault") == 1
		c.Note("allow=%v block=%v blockByDefault=%v", pick(subs[ai]), pick(subsB[bi]), bbd)
		c05Check(c, res, pick(subs[ai]), pick(subsB[bi]), bbd, clients)
	}
	// sweep: every prefix length around both anchors, as allow or as block entry
	runSweep := func(c *mc.Ctx) {
		fam := c.Choose(2, "family")
		anchor, bits := c05A4, 32
		if fam == 1 {
			anchor, bits = c05A6, 128
		}
		l := c.Choose(bits+1, "prefixlen")
		asBlock := c.Choose(2, "as-block") == 1
		bbd := c.Choose(2, "blockByDefault") == 1
		e := fmt.Sprintf("%s/%d", anchor, l)
		c.Note("entry %s asBlock=%v bbd=%v", e, asBlock, bbd)
		if asBlock {
			c05Check(c, res, nil, []string{e}, bbd, clients)
		} else {
			c05Check(c, res, []string{e}, nil, bbd, clients)
		}
	}
	mk := func(name string, run func(*mc.Ctx)) mc.Job {
		return mc.Job{Name: name,
			Run: func(r *mc.Result, env *mc.Env) {
				res = r
				mc.Explore(r, mc.Options{Job: name, MaxDev: -1, SubShard: env.Shard, SubN: env.NShards, SubDepth: 2, Env: env}, run)
			},
			Replay: func(ch []int) (*mc.Failure, []string) { res = mc.NewResult("C05"); return mc.ReplayOne(run, ch) }}
	}
	// nested entries sharing one base address, in EVERY order (overlapping entries; a list is a set, its order
	// must not matter): every ordered list of 1-3 of them, as allow list or as block list
	fams := [][]string{{"10.0.0.0", "10.0.0.0/24", "10.0.0.0/16", "10.0.0.0/8"}, {"2001:db8::", "2001:db8::/64", "2001:db8::/32", "2001:db8::/127"}}
	nestedClients := []string{"10.0.0.0", "10.0.0.1", "10.0.1.1", "10.1.1.1", "11.0.0.0", "2001:db8::", "2001:db8::1", "2001:db8::2", "2001:db8:0:1::1", "2001:db8:1::1", "2001:db9::1"}
	runNested := func(c *mc.Ctx) {
		fam := fams[c.Choose(2, "family")]
		n := 1 + c.Choose(3, "entries")
		var list []string
		used := map[int]bool{}
		for i := 0; i < n; i++ {
			k := c.Choose(len(fam), fmt.Sprintf("entry%d", i))
			if used[k] {
				c.Outcome("repeated-entry")
				return
			}
			used[k] = true
			list = append(list, fam[k])
		}
		asBlock := c.Choose(2, "as-block") == 1
		bbd := c.Choose(2, "blockByDefault") == 1
		c.Note("entries %v asBlock=%v bbd=%v", list, asBlock, bbd)
		if asBlock {
			c05Check(c, res, nil, list, bbd, nestedClients)
		} else {
			c05Check(c, res, list, nil, bbd, nestedClients)
		}
	}
	mc.RunJobsAll("C05", []mc.Job{mk("specs", runSpecs), mk("prefix-sweep", runSweep), mk("nested-entries-in-every-order", runNested)})
}
