// Package vatomic substitutes for "sync/atomic" in instrumented files: every operation is a
// scheduler gate (always enabled) followed by the real atomic operation.
package vatomic

import (
	"sync/atomic"
	"unsafe"

	"github.com/megaease/easegress/pkg/zzverif/vrt"
)

func g(kind string, obj interface{}) { vrt.Gate(vrt.Op{Kind: kind, Obj: obj}) }

// Value is atomic.Value with gates.
type Value struct{ v atomic.Value }

func (v *Value) Load() interface{}              { g("Value.Load", v); return v.v.Load() }
func (v *Value) Store(x interface{})            { g("Value.Store", v); v.v.Store(x) }
func (v *Value) Swap(x interface{}) interface{} { g("Value.Swap", v); return v.v.Swap(x) }
func (v *Value) CompareAndSwap(o, n interface{}) bool {
	g("Value.CAS", v)
	return v.v.CompareAndSwap(o, n)
}

func AddInt32(p *int32, d int32) int32     { g("AddInt32", p); return atomic.AddInt32(p, d) }
func AddInt64(p *int64, d int64) int64     { g("AddInt64", p); return atomic.AddInt64(p, d) }
func AddUint32(p *uint32, d uint32) uint32 { g("AddUint32", p); return atomic.AddUint32(p, d) }
func AddUint64(p *uint64, d uint64) uint64 { g("AddUint64", p); return atomic.AddUint64(p, d) }
func LoadInt32(p *int32) int32             { g("LoadInt32", p); return atomic.LoadInt32(p) }
func LoadInt64(p *int64) int64             { g("LoadInt64", p); return atomic.LoadInt64(p) }
func LoadUint32(p *uint32) uint32          { g("LoadUint32", p); return atomic.LoadUint32(p) }
func LoadUint64(p *uint64) uint64          { g("LoadUint64", p); return atomic.LoadUint64(p) }
func StoreInt32(p *int32, v int32)         { g("StoreInt32", p); atomic.StoreInt32(p, v) }
func StoreInt64(p *int64, v int64)         { g("StoreInt64", p); atomic.StoreInt64(p, v) }
func StoreUint32(p *uint32, v uint32)      { g("StoreUint32", p); atomic.StoreUint32(p, v) }
func StoreUint64(p *uint64, v uint64)      { g("StoreUint64", p); atomic.StoreUint64(p, v) }
func SwapInt32(p *int32, v int32) int32    { g("SwapInt32", p); return atomic.SwapInt32(p, v) }
func SwapInt64(p *int64, v int64) int64    { g("SwapInt64", p); return atomic.SwapInt64(p, v) }
func CompareAndSwapInt32(p *int32, o, n int32) bool {
	g("CASInt32", p)
	return atomic.CompareAndSwapInt32(p, o, n)
}
func CompareAndSwapInt64(p *int64, o, n int64) bool {
	g("CASInt64", p)
	return atomic.CompareAndSwapInt64(p, o, n)
}
func CompareAndSwapUint32(p *uint32, o, n uint32) bool {
	g("CASUint32", p)
	return atomic.CompareAndSwapUint32(p, o, n)
}
func CompareAndSwapUint64(p *uint64, o, n uint64) bool {
	g("CASUint64", p)
	return atomic.CompareAndSwapUint64(p, o, n)
}
func LoadPointer(p *unsafe.Pointer) unsafe.Pointer { g("LoadPointer", p); return atomic.LoadPointer(p) }
func StorePointer(p *unsafe.Pointer, v unsafe.Pointer) {
	g("StorePointer", p)
	atomic.StorePointer(p, v)
}
