//go:build verif

//go:debug asynctimerchan=0

package ratelimiter

// C09 part 2 — the RateLimiter filter in virtual time (testing/synctest bubble): 429 + rateLimited on
// rejection, unmatched URLs never limited, and reload with an unchanged rule keeps the limiter state
// (differential: history split by a reload == the same history without reload).

import (
	"fmt"
	"net/http"
	"strings"
	"testing"
	"testing/synctest"
	"time"

	"github.com/megaease/easegress/pkg/context"
	"github.com/megaease/easegress/pkg/filters"
	"github.com/megaease/easegress/pkg/logger"
	"github.com/megaease/easegress/pkg/protocols/httpprot"
	"github.com/megaease/easegress/pkg/tracing"
	"github.com/megaease/easegress/pkg/zzverif/mc"
)

func init() { logger.InitNop() }

const c09fP = 10 * time.Millisecond

// explicitRef: the /limited rule names its policy itself; defaultRef: the spec-wide defaultPolicyRef
func c09fSpec(limit int, timeout string, second bool, explicitRef bool, defaultRef string) string {
	y := c09fSpec0(limit, timeout, second)
	if explicitRef {
		y = strings.Replace(y, "    prefix: /limited\n", "    prefix: /limited\n  policyRef: pol\n", 1)
	}
	return strings.Replace(y, "defaultPolicyRef: pol\n", "defaultPolicyRef: "+defaultRef+"\n", 1)
}

func c09fSpec0(limit int, timeout string, second bool) string {
	y := fmt.Sprintf(`
name: rl
kind: RateLimiter
policies:
- name: pol
  timeoutDuration: %s
  limitRefreshPeriod: 10ms
  limitForPeriod: %d
- name: other
  timeoutDuration: 10ms
  limitRefreshPeriod: 10ms
  limitForPeriod: 7
defaultPolicyRef: pol
urls:
- methods: [GET]
  url:
    prefix: /limited
`, timeout, limit)
	if second {
		y += `- url:
    exact: /extra
  policyRef: other
`
	}
	return y
}

var c09fValidated = map[string]bool{}

func c09fNew(y string) *RateLimiter {
	// validation (expensive) once per distinct YAML; a fresh spec object per instance, because the
	// filter keeps its limiters inside the spec's URL rules
	if !c09fValidated[y] {
		var raw map[string]interface{}
		if err := yamlUnmarshal(y, &raw); err != nil {
			panic(err)
		}
		if _, err := filters.NewSpec(nil, "p", raw); err != nil {
			panic(err)
		}
		c09fValidated[y] = true
	}
	spec := kind.DefaultSpec()
	if err := yamlUnmarshal(y, spec); err != nil {
		panic(err)
	}
	return kind.CreateInstance(spec).(*RateLimiter)
}

type c09fObs struct {
	status int
	result string
	wait   time.Duration
}

func c09fDo(f *RateLimiter, url string) c09fObs {
	stdr, _ := http.NewRequest("GET", "http://h"+url, nil)
	req, _ := httpprot.NewRequest(stdr)
	ctx := context.New(tracing.NoopSpan)
	ctx.SetInputRequest(req)
	t0 := time.Now()
	res := f.Handle(ctx)
	o := c09fObs{result: res, wait: time.Since(t0)}
	if r := ctx.GetOutputResponse(); r != nil {
		o.status = r.(*httpprot.Response).StatusCode()
	}
	return o
}

type c09fStep struct {
	gap time.Duration
	url string
}

func TestVerifC09filter(t *testing.T) {
	synctest.Test(t, func(t *testing.T) {
		env := mc.GetEnv()
		L := 4
		if env.Thorough() {
			L = 6
		}
		gaps := []time.Duration{0, c09fP / 2, c09fP}
		urls := []string{"/limited", "/free"}
		var jobs []mc.Job
		for _, limit := range []int{1, 2} {
			for _, timeout := range []string{"0ms", "10ms"} {
				for _, explicit := range []bool{false, true} {
					limit, timeout, explicit := limit, timeout, explicit
					run := func(c *mc.Ctx) {
						var steps []c09fStep
						for i := 0; i < L; i++ {
							steps = append(steps, c09fStep{gaps[c.Choose(len(gaps), "gap")], urls[c.Choose(len(urls), "url")]})
						}
						// reload point: 0 = never, k = before step k (1..L-1); kind: unchanged rule (other url list may change)
						rp := c.Choose(L, "reload-before-step")
						addSecond := c.Choose(2, "reload-adds-unrelated-url") == 1
						newDefault := "pol"
						if c.Choose(2, "reload-changes-defaultPolicyRef") == 1 {
							// explicit: the /limited rule and its policy stay exactly the same (state must be kept);
							// otherwise the rule follows the default: its effective policy CHANGES to "other" (7 per period)
							newDefault = "other"
						}
						runHist := func(reloadAt int) []c09fObs {
							f := c09fNew(c09fSpec(limit, timeout, false, explicit, "pol"))
							f.Init()
							var obs []c09fObs
							for i, s := range steps {
								if reloadAt > 0 && i == reloadAt {
									g2 := c09fNew(c09fSpec(limit, timeout, addSecond, explicit, newDefault))
									g2.Inherit(f)
									f.Close() // what Pipeline.Inherit does with the previous generation right after
									f = g2
								}
								time.Sleep(s.gap)
								obs = append(obs, c09fDo(f, s.url))
							}
							return obs
						}
						// align both runs on the same phase of the virtual clock
						t0 := time.Now() // the limiter is created now: its periods start here
						base := runHist(0)
						// the CONFIGURED policy as the client observes it through the filter (the filter sleeps the imposed
						// wait): per period <= limit releases, wait <= timeoutDuration, no wait while the arrival period
						// has a spare permit, 429 only when every period up to the timeout horizon is full
						toCfg, _ := time.ParseDuration(timeout)
						rel := map[int]int{}
						now := t0
						for i, o := range base {
							now = now.Add(steps[i].gap)
							arr := int(now.Sub(t0) / c09fP)
							if steps[i].url != "/limited" {
								continue
							}
							if o.result == "rateLimited" {
								for q := arr; q <= arr+int(toCfg/c09fP); q++ {
									if rel[q] < limit {
										c.Failf("filter:rejected-with-free-permit", "limit %d per %v, timeoutDuration %s: history %v: request %d arrived in period %d and got 429 although period %d has only %d releases", limit, c09fP, timeout, steps, i+1, arr, q, rel[q])
									}
								}
								continue
							}
							if o.wait > toCfg {
								c.Failf("filter:wait-exceeds-configured-timeout", "limit %d per %v, timeoutDuration %s: history %v: request %d was made to wait %v", limit, c09fP, timeout, steps, i+1, o.wait)
							}
							if rel[arr] < limit && o.wait != 0 {
								c.Failf("filter:spare-permit-but-waits", "limit %d per %v, timeoutDuration %s: history %v: request %d arrived in period %d (%d releases so far) and waited %v", limit, c09fP, timeout, steps, i+1, arr, rel[arr], o.wait)
							}
							q := int(now.Add(o.wait).Sub(t0) / c09fP)
							rel[q]++
							if rel[q] > limit {
								c.Failf("filter:period-over-limit", "limit %d per %v, timeoutDuration %s: history %v: period %d has %d releases", limit, c09fP, timeout, steps, q, rel[q])
							}
							now = now.Add(o.wait)
						}
						for i, o := range base {
							s := steps[i]
							c.Note("after %v GET %s -> %d %q wait %v", s.gap, s.url, o.status, o.result, o.wait)
							if s.url == "/free" && (o.result != "" || o.wait != 0 || o.status == 429) {
								c.Failf("unmatched-url-limited", "request to %s (matches no rule) got result %q status %d wait %v", s.url, o.result, o.status, o.wait)
							}
							if o.result == "rateLimited" && o.status != 429 {
								c.Failf("rejected-without-429", "result rateLimited with status %d", o.status)
							}
							if o.result != "rateLimited" && o.status == 429 {
								c.Failf("429-without-result", "status 429 with result %q", o.result)
							}
							c.AddOutcome(fmt.Sprintf("%s%d", o.result, o.wait/c09fP))
						}
						if rp > 0 && !explicit && newDefault == "other" {
							// the update changes the policy of the rule: from the update on the new policy (7 per period,
							// more than the requests that follow) governs, nothing is limited or delayed any more
							with := runHist(rp)
							for i := rp; i < len(with); i++ {
								if steps[i].url == "/limited" && (with[i].result != "" || with[i].wait != 0) {
									c.Failf("filter:update-of-the-effective-policy-not-applied", "limit %d timeout %s: history %v; the update before step %d switches defaultPolicyRef to a policy with 7 permits per period, yet step %d got %+v", limit, timeout, steps, rp+1, i+1, with[i])
								}
							}
						} else if rp > 0 {
							with := runHist(rp)
							for i := range base {
								if base[i] != with[i] {
									c.Failf("reload-changes-limiter-state", "limit %d timeout %s: history %v; reload of an unchanged rule before step %d changed step %d: without reload %+v, with reload %+v",
										limit, timeout, steps, rp+1, i+1, base[i], with[i])
								}
							}
						}
					}
					jobs = append(jobs, mc.ExploreJob(mc.Options{Job: fmt.Sprintf("filter/limit%d-timeout%s-explicitref%v", limit, timeout, explicit), MaxDev: -1}, run))
				}
			}
		}
		mc.RunJobs("C09", jobs)
	})
}
