//go:build verif

package validator

// C06, Basic credentials in ETCD mode — "Basic credentials equal to a configured user's": the configured users
// live under an etcd prefix and change at run time.  Every history of user-set contents (incl. the empty one,
// a removed user, a changed password) is delivered through the real etcdUserCache (initial GetPrefix, then the
// syncer channel of a mocked cluster); after every change every (user, password) pair of the alphabet is
// admitted iff it is a configured pair of the LATEST content.

import (
	"crypto/sha1"
	"encoding/base64"
	"fmt"
	"net/http"
	"sort"
	"time"

	"github.com/megaease/easegress/pkg/cluster"
	"github.com/megaease/easegress/pkg/cluster/clustertest"
	"github.com/megaease/easegress/pkg/protocols/httpprot"
	"github.com/megaease/easegress/pkg/zzverif/mc"
)

// contents of the credentials prefix: user -> password
var c06EtcdContents = []map[string]string{
	{},
	{"alice": "pa"},
	{"alice": "pa", "bob": "pb"},
	{"bob": "pb"},
	{"alice": "pa2", "bob": "pb"},
}

func c06EtcdKVs(content map[string]string) map[string]string {
	kvs := map[string]string{}
	for u, p := range content {
		s := sha1.Sum([]byte(p))
		kvs["/custom-data/credentials/"+u] = fmt.Sprintf("username: %s\npassword: \"{SHA}%s\"\n", u, base64.StdEncoding.EncodeToString(s[:]))
	}
	return kvs
}

func c06EtcdJob(L int) mc.Job {
	pairs := [][2]string{{"alice", "pa"}, {"alice", "pa2"}, {"bob", "pb"}, {"bob", "pa"}, {"carol", "pa"}}
	run := func(c *mc.Ctx) {
		cur := c.Choose(len(c06EtcdContents), "initial-content")
		ch := make(chan map[string]string, 4)
		cls := &clustertest.MockedCluster{
			MockedGetPrefix: func(string) (map[string]string, error) { return c06EtcdKVs(c06EtcdContents[cur]), nil },
			MockedSyncer: func(time.Duration) (cluster.Syncer, error) {
				return &clustertest.MockedSyncer{MockedSyncPrefix: func(string) (<-chan map[string]string, error) { return ch, nil }}, nil
			},
		}
		cache := newEtcdUserCache(cls, "")
		cache.WatchChanges()
		bav := &BasicAuthValidator{spec: &BasicAuthValidatorSpec{Mode: "ETCD"}, authorizedUsersCache: cache}
		defer bav.Close()
		hist := []int{cur}
		admitted := func(u, p string) bool {
			stdr, _ := http.NewRequest("GET", "http://h.example/p", nil)
			stdr.Header.Set("Authorization", "Basic "+base64.StdEncoding.EncodeToString([]byte(u+":"+p)))
			req, _ := httpprot.NewRequest(stdr)
			return bav.Validate(req) == nil
		}
		check := func() {
			want := map[string]bool{}
			for u, p := range c06EtcdContents[cur] {
				want[u+":"+p] = true
			}
			// the update is applied by a goroutine of the cache: wait (bounded) until the answers are the expected
			// ones; only an answer that is still wrong after 5 s is reported
			deadline := time.Now().Add(5 * time.Second)
			for {
				var wrong []string
				for _, pr := range pairs {
					if got := admitted(pr[0], pr[1]); got != want[pr[0]+":"+pr[1]] {
						wrong = append(wrong, fmt.Sprintf("%s:%s admitted=%v", pr[0], pr[1], got))
					}
				}
				if len(wrong) == 0 {
					return
				}
				if time.Now().After(deadline) {
					sort.Strings(wrong)
					kind := "removed-or-changed-credentials-still-admitted"
					for _, w := range wrong {
						if w[len(w)-5:] == "false" {
							kind = "configured-credentials-rejected"
						}
					}
					c.Failf("basic-etcd:"+kind, "history of credential contents %v (latest %v): %v", hist, c06EtcdContents[cur], wrong)
				}
				time.Sleep(time.Millisecond)
			}
		}
		check()
		for i := 0; i < L; i++ {
			cur = c.Choose(len(c06EtcdContents), "next-content")
			hist = append(hist, cur)
			ch <- c06EtcdKVs(c06EtcdContents[cur])
			check()
		}
		c.Outcome(fmt.Sprintf("final=%d", cur))
	}
	return mc.ExploreJob(mc.Options{Job: "basic-etcd", MaxDev: -1}, run)
}
