// Package c13 exists only in the verification overlay: it imports every anchored filter kind and object so
// that specs accepted by validation can be instantiated and exercised (property C13).
package c13
