//go:build verif

//go:debug asynctimerchan=0

package mqttproxy

// C17 (MQTT part) — maxAllowedConnection on the real broker: every sequence of connect / network drop /
// takeover events over 3 client ids, to quiescence after each event: the number of connected clients never
// exceeds the cap, refused connections get CONNACK server-unavailable, freed slots are usable, a takeover
// of an existing id at the cap is admitted.

import (
	"fmt"
	"testing"
	"testing/synctest"

	"github.com/eclipse/paho.mqtt.golang/packets"
	"github.com/megaease/easegress/pkg/zzverif/mc"
)

func TestVerifC17mqtt(t *testing.T) {
	synctest.Test(t, func(t *testing.T) {
		env := mc.GetEnv()
		L := 5
		if env.Thorough() {
			L = 7
		}
		ids := []string{"a", "b", "c"}
		var jobs []mc.Job
		for _, capN := range []int{1, 2} {
			capN := capN
			run := func(c *mc.Ctx) {
				vb := vNewBroker(&Spec{MaxAllowedConnection: capN})
				defer vb.close()
				var all []*vClient // every connection of this execution: closed at the end, or their reader goroutines pile up
				defer func() {
					for _, k := range all {
						k.conn.Close()
					}
					synctest.Wait()
				}()
				cur := map[string]*vClient{} // reference: the connected (accepted, un-superseded, un-dropped) connection per id
				old := map[string][]*vClient{} // superseded connections whose links are still open
				var hist []string
				for step := 0; step < L; step++ {
					k := c.Choose(3*len(ids), "event")
					id := ids[k%len(ids)]
					if k >= 2*len(ids) {
						// the link of a superseded connection of this id finally ends: its teardown must not touch
						// the registration of the connection that took over
						if len(old[id]) == 0 {
							hist = append(hist, "noop")
							continue
						}
						hist = append(hist, "superseded-link-of-"+id+"-ends")
						old[id][0].drop()
						old[id] = old[id][1:]
					} else if k < len(ids) {
						hist = append(hist, "connect-"+id)
						_, takeover := cur[id]
						cl := vb.connect(id, id == "a") // id a uses clean sessions, b and c persistent ones
						all = append(all, cl)
						wantAccept := takeover || len(cur) < capN
						if takeover && len(cur) >= capN && cl.connack == packets.ErrRefusedServerUnavailable {
							// reading: the statement does not say whether a takeover of an existing id AT the cap is
							// admitted; refusing it with server-unavailable keeps the cap, so both answers are accepted.
							// The old connection then stays the connected one.
							c.AddOutcome("takeover-at-cap-refused")
							synctest.Wait()
							continue
						}
						switch {
						case wantAccept && cl.connack != packets.Accepted:
							what := "free-slot"
							if takeover {
								what = "takeover-at-cap"
							}
							c.Failf("refused-although-allowed:"+what, "cap %d, history %v: CONNECT of %s answered %d with %d clients connected", capN, hist, id, cl.connack, len(cur))
						case !wantAccept && cl.connack == packets.Accepted:
							c.Failf("admitted-above-cap", "cap %d, history %v: CONNECT of %s accepted with %d clients already connected", capN, hist, id, len(cur))
						case !wantAccept && cl.connack != packets.ErrRefusedServerUnavailable:
							c.Failf("refused-with-wrong-code", "cap %d, history %v: CONNECT of %s refused with code %d (want server unavailable %d)", capN, hist, id, cl.connack, packets.ErrRefusedServerUnavailable)
						}
						if wantAccept {
							if prev, ok := cur[id]; ok {
								old[id] = append(old[id], prev)
							}
							cur[id] = cl
						}
					} else {
						cl, ok := cur[id]
						if !ok {
							hist = append(hist, "noop")
							continue
						}
						hist = append(hist, "drop-"+id)
						cl.drop()
						delete(cur, id)
					}
					synctest.Wait()
					n := len(vb.b.currentClients())
					if n > capN {
						c.Failf("connected-clients-above-cap", "cap %d, history %v: broker has %d connected clients", capN, hist, n)
					}
					if n != len(cur) {
						c.Failf("connected-clients-differ", "cap %d, history %v: broker has %d connected clients, reference %d", capN, hist, n, len(cur))
					}
				}
				c.Outcome(fmt.Sprintf("connected=%d superseded-open=%d last=%s", len(cur), len(old["a"])+len(old["b"])+len(old["c"]), hist[len(hist)-1]))
			}
			name := fmt.Sprintf("mqtt-cap%d", capN)
			jobs = append(jobs, mc.Job{Name: name,
				Run: func(r *mc.Result, env *mc.Env) {
					mc.Explore(r, mc.Options{Job: name, MaxDev: -1, SubShard: env.Shard, SubN: env.NShards, SubDepth: 2, Env: env}, run)
				},
				Replay: func(ch []int) (*mc.Failure, []string) { return mc.ReplayOne(run, ch) }})
		}
		mc.RunJobsAll("C17", jobs)
	})
}
