//go:build verif

//go:debug asynctimerchan=0

package proxy

// C04 — load balancers.  Sequential part: every policy x pool size x weight vector x key
// sequence x every answer of every rand.Intn call.  Concurrent part: selectors || list
// replacement, every schedule at gate granularity (vatomic / vrand shims).

import (
	"fmt"
	"io"
	"net/http"
	"sort"
	"strings"
	"testing"
	"testing/synctest"

	"github.com/megaease/easegress/pkg/object/serviceregistry"
	"github.com/megaease/easegress/pkg/zzverif/mc"
	"github.com/megaease/easegress/pkg/zzverif/vrand"
	"github.com/megaease/easegress/pkg/zzverif/vrt"
)

var c04Policies = []string{"roundRobin", "random", "weightedRandom", "ipHash", "headerHash", ""}

// c04TwoTags: the pool selects instances carrying tag t OR tag u (an instance with both must count once)
var c04TwoTags = false

func c04SpecYAML(policy string, urls []string, weights []int, tags bool) string {
	var b strings.Builder
	b.WriteString("name: proxy\nkind: Proxy\npools:\n- servers:\n")
	for i, u := range urls {
		fmt.Fprintf(&b, "  - url: %s\n", u)
		if weights != nil {
			fmt.Fprintf(&b, "    weight: %d\n", weights[i])
		}
	}
	if policy != "" {
		fmt.Fprintf(&b, "  loadBalance:\n    policy: %s\n    headerHashKey: X-Key\n", policy)
	}
	if tags && c04TwoTags {
		b.WriteString("  serverTags: [t, u]\n")
	} else if tags {
		b.WriteString("  serverTags: [t]\n")
	}
	return b.String()
}

func c04URLs(prefix string, n int) []string {
	var u []string
	for i := 0; i < n; i++ {
		u = append(u, fmt.Sprintf("http://%s%d.example:80", prefix, i))
	}
	return u
}

type c04Hit struct{ url string }

func c04Stub(hits *[]string) func(r *http.Request, client *http.Client) (*http.Response, error) {
	return func(r *http.Request, client *http.Client) (*http.Response, error) {
		*hits = append(*hits, "http://"+r.URL.Host)
		return &http.Response{StatusCode: 200, Header: http.Header{}, Body: io.NopCloser(strings.NewReader("ok")), ContentLength: 2}, nil
	}
}

func c04Req(ip, hdr string) *http.Request {
	r, _ := http.NewRequest("GET", "http://client.example/x", nil)
	r.RemoteAddr = "9.9.9.9:1"
	r.Header.Set("X-Real-Ip", ip)
	if hdr != "" {
		r.Header.Set("X-Key", hdr)
	}
	return r
}

var (
	c04IPs  = []string{"1.1.1.1", "2.2.2.2", "3.3.3.3", "4.4.4.4"}
	c04Hdrs = []string{"", "a", "b"}
)

// c04CheckPicks checks one generation's picks against the policy's promise.
func c04CheckPicks(c *mc.Ctx, policy string, list []string, weights map[string]int, picks []string, keys []string, what string) {
	in := map[string]bool{}
	for _, u := range list {
		in[u] = true
	}
	for i, p := range picks {
		if !in[p] {
			c.Failf("pick-outside-current-list:"+policy, "%s: pick #%d went to %s which is not in the current list %v", what, i+1, p, list)
		}
	}
	switch policy {
	case "roundRobin", "":
		cnt := map[string]int{}
		for _, p := range picks {
			cnt[p]++
		}
		k, n := len(picks), len(list)
		for _, u := range list {
			if cnt[u] < k/n || cnt[u] > (k+n-1)/n {
				c.Failf("roundRobin-unfair", "%s: after %d selections over %d servers, %s was chosen %d times (allowed %d..%d); picks %v", what, k, n, u, cnt[u], k/n, (k+n-1)/n, picks)
			}
		}
	case "ipHash", "headerHash":
		seen := map[string]string{}
		for i, p := range picks {
			if q, ok := seen[keys[i]]; ok && q != p {
				c.Failf(policy+"-not-sticky", "%s: key %q went to %s and then to %s while the list was unchanged", what, keys[i], q, p)
			}
			seen[keys[i]] = p
		}
	case "weightedRandom":
		pos := false
		for _, u := range list {
			pos = pos || weights[u] > 0
		}
		for _, p := range picks {
			if pos && weights[p] == 0 {
				c.Failf("weightedRandom-picked-zero-weight", "%s: chose %s (weight 0) although some server has a positive weight (%v)", what, p, weights)
			}
		}
	}
}

func TestVerifC04(t *testing.T) {
	env := mc.GetEnv()
	var jobs []mc.Job
	weightCfgs := []string{"none", "ones", "ramp", "partial"}
	for _, policy := range c04Policies {
		for n := 1; n <= 4; n++ {
			policy, n := policy, n
			run := func(c *mc.Ctx) {
				defer vrand.Set(nil)
				wc := weightCfgs[c.Choose(len(weightCfgs), "weights")]
				c04TwoTags = c.Choose(2, "pool-selects-two-tags") == 1
				urls := c04URLs("s", n)
				var ws []int
				wmap := map[string]int{}
				switch wc {
				case "ones":
					for range urls {
						ws = append(ws, 1)
					}
				case "ramp":
					for i := range urls {
						ws = append(ws, i+1)
					}
				case "partial":
					for i := range urls {
						ws = append(ws, i) // first server weight 0: validation must reject unless n == 1
					}
				}
				for i, u := range urls {
					if ws != nil {
						wmap[u] = ws[i]
					}
				}
				y := c04SpecYAML(policy, urls, ws, true)
				c.Note("%s", y)
				p, err := vNewProxy(y, nil)
				if err != nil {
					c.Outcome("rejected")
					if wc != "partial" || n == 1 {
						c.Failf("spec-rejected", "validation rejected %v\n%s", err, y)
					}
					return
				}
				var hits []string
				fnSendRequest = c04Stub(&hits)
				vrand.Set(c)
				do := func(k int, what string, list []string, weights map[string]int) {
					hits = nil
					var keys []string
					for i := 0; i < k; i++ {
						ip, hd := c04IPs[(i*i+i/2)%len(c04IPs)], c04Hdrs[(i+i/3)%len(c04Hdrs)]
						if policy == "ipHash" {
							keys = append(keys, ip)
						} else {
							keys = append(keys, hd)
						}
						o := vHandle(p, c04Req(ip, hd))
						if o.status != 200 || o.result != "" {
							c.Failf("request-failed-with-nonempty-list:"+policy, "%s: request %d failed (status %d result %q) although the server list %v is not empty", what, i+1, o.status, o.result, list)
						}
					}
					c04CheckPicks(c, policy, list, weights, hits, keys, what)
				}
				k := 3*n + 1
				if policy == "random" || policy == "weightedRandom" {
					k = 3
					if n >= 4 {
						k = 2
					}
				}
				do(k, "static list", urls, wmap)
				// service discovery replaces the list
				dv := c.Choose(4, "discovery")
				if dv > 0 {
					inst := map[string]*serviceregistry.ServiceInstanceSpec{}
					var dl []string
					dw := map[string]int{}
					add := func(id string, tags []string, w int, qualifies bool) {
						s := &serviceregistry.ServiceInstanceSpec{RegistryName: "r", ServiceName: "svc", InstanceID: id, Address: id + ".disc", Port: 80, Tags: tags, Weight: w}
						inst[id] = s
						if qualifies {
							dl = append(dl, s.URL())
							dw[s.URL()] = w
						}
					}
					switch dv {
					case 1: // nobody qualifies -> static list again
						add("d0", []string{"other"}, 1, false)
						dl, dw = urls, wmap
					case 2: // weights (0,5)
						add("d0", []string{"t"}, 0, true)
						add("d1", []string{"t", "u"}, 5, true)
					case 3:
						add("d0", []string{"t"}, 0, true)
						add("d1", nil, 3, false)
						add("d2", []string{"t"}, 0, true)
						add("d3", []string{"u", "t"}, 0, true)
						add("d4", []string{"u"}, 0, c04TwoTags)
					}
					p.mainPool.useService(inst)
					sort.Strings(dl)
					do(k, fmt.Sprintf("after discovery variant %d", dv), dl, dw)
				}
				c.Outcome(fmt.Sprintf("%s-n%d-%s-disc%d", policy, n, wc, dv))
			}
			jobs = append(jobs, mc.ExploreJob(mc.Options{Job: fmt.Sprintf("seq/%s/n%d", policy, n), MaxDev: -1}, run))
		}
	}
	_ = env
	mc.RunJobs("C04", jobs)
}

// ---- concurrent part ----

func TestVerifC04sched(t *testing.T) {
	synctest.Test(t, func(t *testing.T) {
		vrt.SetMode(vrt.ModeFree)
		env := mc.GetEnv()
		maxDev := 2
		if env.Thorough() {
			maxDev = 3
		}
		var jobs []mc.Job
		for _, policy := range []string{"roundRobin", "random", "weightedRandom", "ipHash"} {
			for _, sel := range []int{2, 3} {
				policy, sel := policy, sel
				if sel == 3 && policy != "roundRobin" {
					continue
				}
				run := func(c *mc.Ctx) {
					defer vrand.Set(nil)
					gen1 := c04URLs("a", 2)
					p, err := vNewProxy(c04SpecYAML(policy, gen1, []int{1, 2}, true), nil)
					if err != nil {
						c.Failf("spec-rejected", "%v", err)
					}
					gen2inst := map[string]*serviceregistry.ServiceInstanceSpec{}
					var gen2 []string
					w := map[string]int{gen1[0]: 1, gen1[1]: 2}
					for i, wt := range []int{0, 2, 1} {
						s := &serviceregistry.ServiceInstanceSpec{RegistryName: "r", ServiceName: "svc", InstanceID: fmt.Sprint("b", i), Address: fmt.Sprint("b", i, ".disc"), Port: 80, Tags: []string{"t"}, Weight: wt}
						gen2inst[s.InstanceID] = s
						gen2 = append(gen2, s.URL())
						w[s.URL()] = wt
					}
					type pick struct {
						url, key string
					}
					picks := make([][]pick, sel)
					fnSendRequest = func(r *http.Request, client *http.Client) (*http.Response, error) {
						a := int(r.Header.Get("X-Actor")[0] - '0')
						picks[a] = append(picks[a], pick{"http://" + r.URL.Host, r.Header.Get("X-Real-Ip")})
						return &http.Response{StatusCode: 200, Header: http.Header{}, Body: io.NopCloser(strings.NewReader("ok")), ContentLength: 2}, nil
					}
					vrand.Set(c)
					sch := vrt.New(c)
					var failed string
					for a := 0; a < sel; a++ {
						a := a
						sch.Go(fmt.Sprintf("selector%d", a), func() {
							for i := 0; i < 2; i++ {
								r := c04Req(c04IPs[(a+i)%2], "")
								r.Header.Set("X-Actor", fmt.Sprint(a))
								if o := vHandle(p, r); o.status != 200 {
									failed = fmt.Sprintf("selector %d request %d: status %d result %q", a, i+1, o.status, o.result)
								}
							}
						})
					}
					sch.Go("discovery", func() { p.mainPool.useService(gen2inst) })
					if msg := sch.Run(); msg != "" {
						c.Failf("scheduler:"+msg[:8], "%s\n%s", msg, sch.TraceString())
					}
					c.Note("schedule: %s", sch.TraceString())
					if failed != "" {
						c.Failf("request-failed-with-nonempty-list:"+policy, "%s\nschedule: %s", failed, sch.TraceString())
					}
					// split the picks by generation (the URLs of the two lists are disjoint)
					var g1, g2, k1, k2 []string
					for _, ps := range picks {
						for _, pk := range ps {
							if strings.Contains(pk.url, ".disc") {
								g2, k2 = append(g2, pk.url), append(k2, pk.key)
							} else {
								g1, k1 = append(g1, pk.url), append(k1, pk.key)
							}
						}
					}
					c04CheckPicks(c, policy, gen1, w, g1, k1, "generation 1 (static), schedule "+sch.TraceString())
					c04CheckPicks(c, policy, gen2, w, g2, k2, "generation 2 (discovery), schedule "+sch.TraceString())
					c.Outcome(fmt.Sprintf("g1=%d,g2=%d", len(g1), len(g2)))
				}
				jobs = append(jobs, mc.ExploreJob(mc.Options{Job: fmt.Sprintf("sched/%s/%dselectors", policy, sel), MaxDev: maxDev}, run))
			}
		}
		mc.RunJobs("C04", jobs)
	})
}
