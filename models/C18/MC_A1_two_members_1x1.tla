---- MODULE MC_A1_two_members_1x1 ----
EXTENDS ClusterMutex, TLC
G == {"g1", "g2"}
HOf == ("g1" :> "h1" @@ "g2" :> "h2")
MOf == ("h1" :> "m1" @@ "h2" :> "m2")
====
