//go:build verif

package c13

// C13 — every spec within N field deviations of a base spec (per kind): if the validation that the admin API
// applies accepts it, then creating, initialising, serving six requests, inheriting and closing it must not panic.

import (
	"io"
	"net/http/httptest"
	"bytes"
	"fmt"
	"net/http"
	"runtime/debug"
	"sort"
	"strings"
	"testing"
	"time"

	yaml "gopkg.in/yaml.v2"

	"github.com/megaease/easegress/pkg/context"
	_ "github.com/megaease/easegress/pkg/filters/builder"
	_ "github.com/megaease/easegress/pkg/filters/certextractor"
	_ "github.com/megaease/easegress/pkg/filters/corsadaptor"
	_ "github.com/megaease/easegress/pkg/filters/fallback"
	_ "github.com/megaease/easegress/pkg/filters/headertojson"
	_ "github.com/megaease/easegress/pkg/filters/meshadaptor"
	_ "github.com/megaease/easegress/pkg/filters/mock"
	_ "github.com/megaease/easegress/pkg/filters/proxy"
	_ "github.com/megaease/easegress/pkg/filters/ratelimiter"
	_ "github.com/megaease/easegress/pkg/filters/remotefilter"
	_ "github.com/megaease/easegress/pkg/filters/requestadaptor"
	_ "github.com/megaease/easegress/pkg/filters/responseadaptor"
	_ "github.com/megaease/easegress/pkg/filters/validator"
	"github.com/megaease/easegress/pkg/logger"
	_ "github.com/megaease/easegress/pkg/object/globalfilter"
	_ "github.com/megaease/easegress/pkg/object/httpserver"
	_ "github.com/megaease/easegress/pkg/object/mqttproxy"
	"github.com/megaease/easegress/pkg/object/pipeline"
	"github.com/megaease/easegress/pkg/protocols/httpprot"
	"github.com/megaease/easegress/pkg/resilience"
	"github.com/megaease/easegress/pkg/supervisor"
	"github.com/megaease/easegress/pkg/tracing"
	"github.com/megaease/easegress/pkg/zzverif/mc"
)

var vSuper = supervisor.NewDefaultMock()

func init() { logger.InitNop() }

// ---- deviations over a YAML tree ----

type dev struct {
	path []interface{} // keys / indexes
	op   string        // "delete" | "set"
	val  interface{}
	desc string
}

func pathStr(p []interface{}) string {
	var b strings.Builder
	for _, k := range p {
		switch x := k.(type) {
		case string:
			b.WriteString("." + x)
		case int:
			fmt.Fprintf(&b, "[%d]", x)
		}
	}
	return strings.TrimPrefix(b.String(), ".")
}

// genDevs walks the base tree and proposes generic deviations for every node.
func genDevs(node interface{}, path []interface{}, out *[]dev) {
	add := func(op string, val interface{}, what string) {
		*out = append(*out, dev{append([]interface{}{}, path...), op, val, pathStr(path) + "=" + what})
	}
	if len(path) > 0 {
		last, isKey := path[len(path)-1].(string)
		if isKey && last != "kind" && last != "name" {
			add("delete", nil, "<absent>")
		}
	}
	switch v := node.(type) {
	case map[interface{}]interface{}:
		keys := make([]string, 0, len(v))
		for k := range v {
			keys = append(keys, fmt.Sprint(k))
		}
		sort.Strings(keys)
		for _, k := range keys {
			genDevs(v[k], append(path, k), out)
		}
		if len(path) > 0 {
			add("set", map[interface{}]interface{}{}, "{}")
		}
	case []interface{}:
		for i, e := range v {
			if i < 2 {
				genDevs(e, append(path, i), out)
			}
		}
		add("set", []interface{}{}, "[]")
	case string:
		if k, _ := path[len(path)-1].(string); k == "kind" || k == "name" {
			return
		}
		add("set", "", `""`)
		if _, err := time.ParseDuration(v); err == nil {
			add("set", "0s", "0s")
			add("set", "-1s", "-1s")
			add("set", "999999ns", "999999ns") // positive, but 0 once truncated to whole milliseconds
		} else {
			add("set", "zz-unsupported", "zz-unsupported")
		}
	case int:
		add("set", 0, "0")
		add("set", -1, "-1")
		add("set", 1<<31, "2^31")
	case bool:
		add("set", !v, fmt.Sprint(!v))
	}
}

func deepCopy(n interface{}) interface{} {
	switch v := n.(type) {
	case map[interface{}]interface{}:
		m := map[interface{}]interface{}{}
		for k, e := range v {
			m[k] = deepCopy(e)
		}
		return m
	case []interface{}:
		l := make([]interface{}, len(v))
		for i, e := range v {
			l[i] = deepCopy(e)
		}
		return l
	}
	return n
}

// apply returns false if the path no longer exists (an earlier deviation removed it).
func apply(root interface{}, d dev) bool {
	cur := root
	for i, k := range d.path {
		last := i == len(d.path)-1
		switch key := k.(type) {
		case string:
			m, ok := cur.(map[interface{}]interface{})
			if !ok {
				return false
			}
			if last {
				if d.op == "delete" {
					delete(m, key)
				} else {
					m[key] = deepCopy(d.val)
				}
				return true
			}
			nxt, ok := m[key]
			if !ok {
				if d.op == "set" { // hand-written menu entries may create intermediate maps
					nm := map[interface{}]interface{}{}
					m[key] = nm
					nxt = nm
				} else {
					return false
				}
			}
			cur = nxt
		case int:
			l, ok := cur.([]interface{})
			if !ok || key >= len(l) {
				return false
			}
			if last {
				if d.op == "set" {
					l[key] = deepCopy(d.val)
				}
				return true
			}
			cur = l[key]
		}
	}
	return false
}

// ---- kinds ----

type kindCase struct {
	kind     string
	category string // "filter" | "pipeline" | "resilience" | "object"
	base     string
	menu     []dev // hand-written deviations (fields absent from the base)
}

func set(desc string, val interface{}, path ...interface{}) dev {
	return dev{path, "set", val, pathStr(path) + "=" + desc}
}

func kindCases() []kindCase {
	var cs []kindCase
	menus := map[string][]dev{
		"RequestAdaptor": {
			set("gzip", "gzip", "compress"), set("lz4", "lz4", "compress"), set("gzip", "gzip", "decompress"), set("lz4", "lz4", "decompress"),
			set("x", "replaced", "body"), set("h", "other.example", "host"), set("BREW", "BREW", "method"),
			set("regexp", map[interface{}]interface{}{"regexp": "^/(a", "replace": "/$1"}, "path", "regexpReplace"),
		},
		"ResponseAdaptor": {
			set("gzip", "gzip", "compress"), set("lz4", "lz4", "compress"), set("gzip", "gzip", "decompress"), set("lz4", "lz4", "decompress"), set("x", "replaced", "body"),
		},
		"Proxy": {
			set("weightedRandom", map[interface{}]interface{}{"policy": "weightedRandom"}, "pools", 0, "loadBalance"),
			set("headerHash-nokey", map[interface{}]interface{}{"policy": "headerHash"}, "pools", 0, "loadBalance"),
			set("undefined", "nosuchpolicy", "pools", 0, "retryPolicy"),
			set("undefined", "nosuchpolicy", "pools", 0, "circuitBreakerPolicy"),
			set("wrong-kind", "retry", "pools", 0, "circuitBreakerPolicy"),
			set("wrong-kind", "cb", "pools", 0, "retryPolicy"),
			set("defined", "retry", "pools", 0, "retryPolicy"),
			set("defined", "cb", "pools", 0, "circuitBreakerPolicy"),
			set("0s", "0s", "pools", 0, "timeout"), set("-1", -1, "pools", 0, "serverMaxBodySize"),
			set("minLength0", map[interface{}]interface{}{"minLength": 0}, "compression"),
			set("memoryCache", map[interface{}]interface{}{"expiration": "1s", "maxEntryBytes": 10, "codes": []interface{}{200}, "methods": []interface{}{"GET"}}, "pools", 0, "memoryCache"),
			set("memoryCache-0s", map[interface{}]interface{}{"expiration": "0s", "maxEntryBytes": 0, "codes": []interface{}{200}, "methods": []interface{}{"GET"}}, "pools", 0, "memoryCache"),
			set("mirror", map[interface{}]interface{}{"servers": []interface{}{map[interface{}]interface{}{"url": "http://127.0.0.1:9"}}, "filter": map[interface{}]interface{}{"policy": "random", "permil": 500}}, "mirrorPool"),
			set("candidate", map[interface{}]interface{}{"servers": []interface{}{map[interface{}]interface{}{"url": "http://127.0.0.1:9"}}, "filter": map[interface{}]interface{}{"headers": map[interface{}]interface{}{"X-C": map[interface{}]interface{}{"exact": "1"}}}}, "pools", 1),
			set("candidate-headerHash", map[interface{}]interface{}{"servers": []interface{}{map[interface{}]interface{}{"url": "http://127.0.0.1:9"}}, "filter": map[interface{}]interface{}{"policy": "headerHash", "permil": 100}}, "pools", 1),
			set("serviceName-no-registry", "svc", "pools", 0, "serviceName"),
			set("only-candidate", map[interface{}]interface{}{"headers": map[interface{}]interface{}{"X-C": map[interface{}]interface{}{"exact": "1"}}}, "pools", 0, "filter"),
		},
		"RateLimiter": {
			set("0s", "0s", "policies", 0, "limitRefreshPeriod"), set("undefined", "nosuch", "defaultPolicyRef"), set("undefined", "nosuch", "urls", 0, "policyRef"),
			set("regex", map[interface{}]interface{}{"regex": "^/a"}, "urls", 0, "url"),
		},
		"Validator": {
			set("{}", map[interface{}]interface{}{}, "signature"),
			set("no-keys", map[interface{}]interface{}{"ttl": "5m"}, "signature"),
			set("keys", map[interface{}]interface{}{"accessKeys": map[interface{}]interface{}{"k": "s"}}, "signature"),
			set("file-missing", map[interface{}]interface{}{"mode": "FILE", "userFile": "/nonexistent/htpasswd"}, "basicAuth"),
			set("etcd-no-cluster", map[interface{}]interface{}{"mode": "ETCD"}, "basicAuth"),
			set("no-mode", map[interface{}]interface{}{"userFile": "/nonexistent"}, "basicAuth"),
			set("odd-hex", "abc", "jwt", "secret"),
			set("oauth2-empty", map[interface{}]interface{}{}, "oauth2"),
			set("oauth2-jwt", map[interface{}]interface{}{"jwt": map[interface{}]interface{}{"algorithm": "HS256", "secret": "6d79"}}, "oauth2"),
		},
		"Mock": {
			set("0s", "0s", "rules", 0, "delay"), set("1ms", "1ms", "rules", 0, "delay"), set("headers", map[interface{}]interface{}{"X": map[interface{}]interface{}{"exact": "1"}}, "rules", 0, "match", "headers"),
		},
		"RequestBuilder": {
			set("bad-template", "{{ .nosuch.field }}", "template"), set("both", "DEFAULT", "sourceNamespace"), set("delims", "[[", "leftDelim"),
			set("yaml-list", "- a\n- b\n", "template"), set("method-only", "method: {{ .requests.DEFAULT.Method }}\n", "template"),
		},
		"ResponseBuilder": {
			set("bad-template", "{{ .nosuch.field }}", "template"), set("both", "DEFAULT", "sourceNamespace"), set("status-string", "statusCode: abc\n", "template"), set("status-0", "statusCode: 0\n", "template"),
		},
		"CORSAdaptor": {set("maxAge-1", -1, "maxAge"), set("creds", true, "allowCredentials")},
		"Fallback":    {set("mockCode-0", 0, "mockCode"), set("mockCode-99", 99, "mockCode")},
	}
	for _, ks := range vKindSpecs {
		cs = append(cs, kindCase{ks.kind, "filter", ks.base, menus[ks.kind]})
	}
	cs = append(cs,
		kindCase{"Retry", "resilience", "name: r\nkind: Retry\nmaxAttempts: 2\nwaitDuration: 1ms\nbackOffPolicy: random\nrandomizationFactor: 0.5\n",
			[]dev{set("exponential", "exponential", "backOffPolicy"), set("factor-1", 1, "randomizationFactor")}},
		kindCase{"CircuitBreaker", "resilience", "name: c\nkind: CircuitBreaker\nslidingWindowType: COUNT_BASED\nslidingWindowSize: 2\nminimumNumberOfCalls: 1\nfailureRateThreshold: 50\nslowCallRateThreshold: 100\npermittedNumberOfCallsInHalfOpenState: 1\nwaitDurationInOpenState: 1ms\nslowCallDurationThreshold: 1ms\nmaxWaitDurationInHalfOpenState: 1ms\n",
			[]dev{set("TIME_BASED", "TIME_BASED", "slidingWindowType"), set("countingNetworkError", true, "countingNetworkError")}},
		kindCase{"Pipeline", "pipeline", "name: p\nkind: Pipeline\nflow:\n- filter: m\n  jumpIf:\n    mocked: END\n- filter: a\nfilters:\n- name: m\n  kind: Mock\n  rules:\n  - match:\n      path: /x\n    code: 200\n- name: a\n  kind: ResponseAdaptor\n  header:\n    add:\n      X-R: r\nresilience:\n- name: retry\n  kind: Retry\n",
			[]dev{set("alias", "al", "flow", 0, "alias"), set("ns", "n1", "flow", 1, "namespace"), set("END-node", "END", "flow", 1, "filter")}},
		kindCase{"GlobalFilter", "object", "name: g\nkind: GlobalFilter\nbeforePipeline:\n  flow:\n  - filter: m\n  filters:\n  - name: m\n    kind: Mock\n    rules:\n    - match:\n        path: /x\n      code: 200\nafterPipeline:\n  flow:\n  - filter: a\n  filters:\n  - name: a\n    kind: ResponseAdaptor\n    header:\n      add:\n        X-R: r\n", nil},
		kindCase{"HTTPServer", "object", "name: s\nkind: HTTPServer\nport: 18081\nkeepAlive: true\nhttps: false\nkeepAliveTimeout: 60s\nmaxConnections: 10\ncacheSize: 10\nclientMaxBodySize: 100\nrules:\n- host: a.com\n  paths:\n  - pathPrefix: /a\n    backend: p\n    rewriteTarget: /b\n    headers:\n    - key: X\n      values: [\"1\"]\n",
			[]dev{set("regexp", "^/(a", "rules", 0, "paths", 0, "pathRegexp"), set("hostRegexp", "^(a", "rules", 0, "hostRegexp"), set("ip", map[interface{}]interface{}{"allowIPs": []interface{}{"1.2.3.4/33"}}, "ipFilter"), set("hdr-regexp", "^(a", "rules", 0, "paths", 0, "headers", 0, "regexp")}},
		kindCase{"MQTTProxy", "object", "name: q\nkind: MQTTProxy\nport: 18083\ntopicCacheSize: 10\nmaxAllowedConnection: 2\nconnectionLimit:\n  requestRate: 1\n  bytesRate: 10\n  timePeriod: 1\nclientPublishLimit:\n  requestRate: 1\n  timePeriod: 1\nrules:\n- when:\n    packetType: Publish\n  pipeline: p\n",
			[]dev{set("dup-rule", []interface{}{map[interface{}]interface{}{"when": map[interface{}]interface{}{"packetType": "Publish"}, "pipeline": "p"}, map[interface{}]interface{}{"when": map[interface{}]interface{}{"packetType": "Publish"}, "pipeline": "q"}}, "rules"), set("bad-type", "Nonsense", "rules", 0, "when", "packetType"), set("useTLS-nocert", true, "useTLS")}},
	)
	return cs
}

// ---- exercising an accepted spec ----

type panicInfo struct {
	phase, site, msg string
}

func guard(phase string, f func()) (p *panicInfo) {
	defer func() {
		if r := recover(); r != nil {
			st := string(debug.Stack())
			p = &panicInfo{phase, site(st), fmt.Sprint(r)}
		}
	}()
	f()
	return nil
}

func site(st string) string {
	lines := strings.Split(st, "\n")
	start := -1
	for i, l := range lines {
		if strings.HasPrefix(l, "panic(") {
			start = i
		}
	}
	for i := start + 1; start >= 0 && i < len(lines); i++ {
		l := lines[i]
		if strings.HasPrefix(l, "github.com/megaease/easegress/") && !strings.Contains(l, "zzverif") {
			if k := strings.LastIndex(l, "("); k > 0 {
				l = l[:k]
			}
			return strings.TrimPrefix(l, "github.com/megaease/easegress/")
		}
	}
	return "unknown"
}

func requests() []*http.Request {
	var rs []*http.Request
	mk := func(m, url, body string, hdr map[string]string) {
		var r *http.Request
		if body != "" {
			r, _ = http.NewRequest(m, url, bytes.NewReader([]byte(body)))
		} else {
			r, _ = http.NewRequest(m, url, nil)
		}
		for k, v := range hdr {
			r.Header.Set(k, v)
		}
		r.RemoteAddr = "1.2.3.4:5"
		rs = append(rs, r)
	}
	mk("GET", "http://h.example/x", "", nil)
	mk("POST", "http://h.example/x?q=1", "body", map[string]string{"Content-Type": "text/plain", "X-Tag": "a"})
	mk("GET", "http://h.example/other", "", map[string]string{"Origin": "http://a.example.com", "Authorization": "Bearer x.y.z"})
	mk("OPTIONS", "http://h.example/x", "", map[string]string{"Origin": "http://a.example.com", "Access-Control-Request-Method": "GET"})
	mk("PUT", "http://h.example/", "{\"a\":1}", map[string]string{"Content-Type": "application/json", "Accept-Encoding": "gzip", "Authorization": "Basic dTpw"})
	mk("GET", "http://h.example/limited/1", "", map[string]string{"Content-Encoding": "gzip"})
	return rs
}

func exercisePipeline(y string) *panicInfo {
	spec, err := vSuper.NewSpec(y)
	if err != nil {
		return nil // rejected by validation: fine
	}
	ent, err := vSuper.NewObjectEntityFromSpec(spec)
	if err != nil {
		return nil
	}
	p := ent.Instance().(*pipeline.Pipeline)
	if pi := guard("Init", func() { p.Init(spec, nil) }); pi != nil {
		return pi
	}
	for i, stdr := range requests() {
		if pi := guard(fmt.Sprintf("Handle#%d", i), func() {
			req, _ := httpprot.NewRequest(stdr)
			req.FetchPayload(1 << 20)
			ctx := context.New(tracing.NoopSpan)
			ctx.SetInputRequest(req)
			if i%2 == 1 { // every other request finds a response from an earlier filter
				resp, _ := httpprot.NewResponse(nil)
				resp.SetStatusCode(200)
				resp.SetPayload([]byte("previous response"))
				ctx.SetOutputResponse(resp)
			}
			p.Handle(ctx)
			// serving the request includes writing the response the pipeline produced, as the HTTP server's mux does
			if r := ctx.GetOutputResponse(); r != nil {
				if resp, ok := r.(*httpprot.Response); ok {
					w := httptest.NewRecorder()
					for k, vs := range resp.HTTPHeader() {
						for _, v := range vs {
							w.Header().Add(k, v)
						}
					}
					w.WriteHeader(resp.StatusCode())
					if pl := resp.GetPayload(); pl != nil {
						io.Copy(w, pl)
					}
				}
			}
			ctx.Finish()
		}); pi != nil {
			return pi
		}
	}
	ent2, _ := vSuper.NewObjectEntityFromSpec(spec)
	p2 := ent2.Instance().(*pipeline.Pipeline)
	if pi := guard("Inherit", func() { p2.Inherit(spec, p, nil) }); pi != nil {
		return pi
	}
	return guard("Close", func() { p2.Close() })
}

func exerciseResilience(y string) *panicInfo {
	var raw map[string]interface{}
	if err := yaml.Unmarshal([]byte(y), &raw); err != nil {
		return nil
	}
	pol, err := resilience.NewPolicy(raw)
	if err != nil {
		return nil
	}
	return guard("Wrap", func() {
		w := pol.CreateWrapper()
		calls := 0
		h := w.Wrap(func(ctx stdctx) error {
			calls++
			if calls < 3 {
				return fmt.Errorf("fail")
			}
			return nil
		})
		for i := 0; i < 4; i++ {
			h(bg())
		}
	})
}

func TestVerifC13(t *testing.T) {
	env := mc.GetEnv()
	maxDev := 1
	if env.Thorough() {
		maxDev = 2
	}
	var jobs []mc.Job
	for _, kc := range kindCases() {
		kc := kc
		var base interface{}
		if err := yaml.Unmarshal([]byte(kc.base), &base); err != nil {
			t.Fatalf("%s: %v", kc.kind, err)
		}
		var devs []dev
		genDevs(base, nil, &devs)
		devs = append(devs, kc.menu...)
		run := func(c *mc.Ctx) {
			tree := deepCopy(base)
			var applied []string
			// every deviation is a ChooseDev(2): bound = number of deviations
			for _, d := range devs {
				if c.ChooseDev(2, "dev") == 1 {
					if apply(tree, d) {
						applied = append(applied, d.desc)
					}
				}
			}
			out, _ := yaml.Marshal(tree)
			y := string(out)
			c.Note("%s deviations %v\n%s", kc.kind, applied, y)
			var pi *panicInfo
			accepted := true
			switch kc.category {
			case "filter":
				// what the admin API validates is the pipeline that contains the filter
				py := "name: p\nkind: Pipeline\nfilters:\n- " + strings.Replace(strings.TrimSpace(y), "\n", "\n  ", -1) +
					"\nresilience:\n- name: retry\n  kind: Retry\n  maxAttempts: 2\n  waitDuration: 1ms\n- name: cb\n  kind: CircuitBreaker\n  slidingWindowSize: 2\n  minimumNumberOfCalls: 1\n"
				if _, err := vSuper.NewSpec(py); err != nil {
					accepted = false
				} else {
					pi = exercisePipeline(py)
				}
			case "pipeline":
				if _, err := vSuper.NewSpec(y); err != nil {
					accepted = false
				} else {
					pi = exercisePipeline(y)
				}
			case "resilience":
				pi = exerciseResilience(y)
			case "object":
				// validation itself must not panic (NewSpec recovers); instantiation of servers needs sockets and is not done here
				pi = guard("NewSpec", func() {
					if _, err := vSuper.NewSpec(y); err != nil {
						accepted = false
					}
				})
			}
			if pi != nil {
				c.Failf(fmt.Sprintf("panic:%s:%s@%s:%s", kc.kind, pi.site, strings.SplitN(pi.phase, "#", 2)[0], msgClass(pi.msg)), "%s spec accepted by validation panics in %s: %s (at %s)\ndeviations from the base spec: %v\n%s", kc.kind, pi.phase, pi.msg, pi.site, applied, y)
			}
			if accepted {
				c.Outcome(kc.kind + ":accepted")
			} else {
				c.Outcome(kc.kind + ":rejected")
			}
		}
		jobs = append(jobs, mc.ExploreJob(mc.Options{Job: "kind/" + kc.kind, MaxDev: maxDev}, run))
	}
	mc.RunJobs("C13", jobs)
}

// msgClass turns a panic message into a short class name (its first alphabetic words), so that two
// different panics at the same site get different finding keys.
func msgClass(m string) string {
	var w []string
	for _, f := range strings.Fields(m) {
		f = strings.Trim(f, ":,.'\"()")
		ok := f != ""
		for _, r := range f {
			if !(r >= 'a' && r <= 'z' || r >= 'A' && r <= 'Z') {
				ok = false
			}
		}
		if ok {
			w = append(w, strings.ToLower(f))
		}
		if len(w) == 7 {
			break
		}
	}
	return strings.Join(w, "-")
}
