//go:build verif

package mqttproxy

// Shared broker rig (C15, C16, C17): the real Broker started by the real newBroker inside a
// testing/synctest bubble; its TCP listener is replaced by the in-memory vnet listener (import
// rewrite of broker.go); clients are harness objects speaking MQTT with the paho codec over
// net.Pipe connections; a recording handler stands behind the MuxMapper.

import (
	"bytes"
	"fmt"
	"net"
	"net/http/httptest"
	"sync"
	"testing/synctest"

	"github.com/eclipse/paho.mqtt.golang/packets"
	"github.com/megaease/easegress/pkg/context"
	"github.com/megaease/easegress/pkg/logger"
	"github.com/megaease/easegress/pkg/protocols/mqttprot"
	"github.com/megaease/easegress/pkg/zzverif/vnet"
)

func init() { logger.InitNop() }

type vPub struct {
	client, topic string
	id            uint16
	qos           byte
}

// vStorage wraps the broker's storage: puts can be held back (a slow etcd) and released later, in order.
type vStorage struct {
	storage
	mu        sync.Mutex
	stalled   bool
	release   chan struct{}
	watchGate chan struct{} // non-nil: delete-watch events are held back
}

func (s *vStorage) put(key, value string) error {
	s.mu.Lock()
	ch := s.release
	st := s.stalled
	s.mu.Unlock()
	if st {
		<-ch
	}
	return s.storage.put(key, value)
}

// watchDelete forwards the storage's delete events; while holdWatch() is in force they are kept back (the watch of a
// real etcd delivers them asynchronously) and handed over, in order, on releaseWatch().
func (s *vStorage) watchDelete(prefix string) (<-chan map[string]*string, func(), error) {
	in, cancel, err := s.storage.watchDelete(prefix)
	if err != nil {
		return in, cancel, err
	}
	out := make(chan map[string]*string)
	done := make(chan struct{})
	go func() {
		for {
			select {
			case <-done:
				return
			case ev := <-in:
				s.mu.Lock()
				g := s.watchGate
				s.mu.Unlock()
				if g != nil {
					select {
					case <-g:
					case <-done:
						return
					}
				}
				select {
				case out <- ev:
				case <-done:
					return
				}
			}
		}
	}()
	var once sync.Once
	return out, func() { once.Do(func() { close(done) }); cancel() }, nil
}

func (s *vStorage) holdWatch() {
	s.mu.Lock()
	s.watchGate = make(chan struct{})
	s.mu.Unlock()
}

func (s *vStorage) releaseWatch() {
	s.mu.Lock()
	if s.watchGate != nil {
		close(s.watchGate)
		s.watchGate = nil
	}
	s.mu.Unlock()
}

func (s *vStorage) stall() {
	s.mu.Lock()
	s.stalled, s.release = true, make(chan struct{})
	s.mu.Unlock()
}

func (s *vStorage) resume() {
	s.mu.Lock()
	if s.stalled {
		s.stalled = false
		close(s.release)
	}
	s.mu.Unlock()
}

type vBroker struct {
	b     *Broker
	store *vStorage
	l     *vnet.MemListener
	pubs  []vPub // PUBLISH packets handed to the backend pipeline
	drop  func(p *packets.PublishPacket) bool
	port  uint16
	mutex sync.Mutex
	conns []net.Conn // the client ends of every connection dialled: closed by close(), or their goroutines pile up over millions of executions
}

type vPipe struct{ vb *vBroker }

func (h *vPipe) Handle(ctx *context.Context) string {
	req := ctx.GetInputRequest().(*mqttprot.Request)
	if p := req.PublishPacket(); p != nil {
		h.vb.mutex.Lock()
		h.vb.pubs = append(h.vb.pubs, vPub{req.Client().ClientID(), p.TopicName, p.MessageID, p.Qos})
		h.vb.mutex.Unlock()
		if h.vb.drop != nil && h.vb.drop(p) {
			ctx.GetResponse(context.DefaultNamespace).(*mqttprot.Response).SetDrop()
		}
	}
	return ""
}

func (vb *vBroker) GetHandler(name string) (context.Handler, bool) {
	if name == "backend" {
		return &vPipe{vb}, true
	}
	return nil, false
}

var vPortSeq uint16 = 20000

// vNewBroker starts a real broker on an in-memory listener.  Must run inside a bubble.
func vNewBroker(spec *Spec) *vBroker {
	vnet.InMemory = true
	vPortSeq++
	spec.Port = vPortSeq
	spec.EGName, spec.Name = "eg", "mq"
	spec.Rules = []*Rule{{When: &When{PacketType: Publish}, Pipeline: "backend"}}
	vb := &vBroker{port: spec.Port, store: &vStorage{storage: newStorage(nil)}}
	vb.b = newBroker(spec, vb.store, vb, func(string, string) ([]string, error) { return nil, nil })
	if vb.b == nil {
		panic("newBroker returned nil")
	}
	vb.l = vnet.Lookup(fmt.Sprintf(":%d", spec.Port))
	if vb.l == nil {
		panic("the broker did not listen through vnet (instrumentation gap): the rig cannot run")
	}
	synctest.Wait()
	return vb
}

func (vb *vBroker) close() {
	vb.store.resume()
	vb.store.releaseWatch()
	vb.b.close()
	vb.mutex.Lock()
	conns := vb.conns
	vb.conns = nil
	vb.mutex.Unlock()
	for _, k := range conns {
		k.Close()
	}
	synctest.Wait()
}

// httpPublish injects a message through the HTTP publish endpoint handler.
func (vb *vBroker) httpPublish(topic string, qos int, payload string) int {
	body := fmt.Sprintf(`{"topic":%q,"qos":%d,"payload":%q,"base64":false,"distributed":true}`, topic, qos, payload)
	r := httptest.NewRequest("POST", "/mqttproxy/mq/topics/publish", bytes.NewReader([]byte(body)))
	w := httptest.NewRecorder()
	vb.b.httpTopicsPublishHandler(w, r)
	synctest.Wait()
	return w.Code
}

func (vb *vBroker) httpDeleteSession(id string) {
	body := fmt.Sprintf(`{"sessions":[{"sessionID":%q}]}`, id)
	r := httptest.NewRequest("DELETE", "/mqttproxy/mq/sessions", bytes.NewReader([]byte(body)))
	w := httptest.NewRecorder()
	vb.b.httpDeleteSessionHandler(w, r)
	synctest.Wait()
}

// ---- a raw MQTT client ----

type vClient struct {
	id      string
	conn    net.Conn
	srv     *vnet.FlakyConn // the broker's end of the connection
	mu      sync.Mutex
	recv    []packets.ControlPacket
	eof     bool // the broker closed the connection
	reading bool
	autoAck bool
	gate    chan struct{} // non-nil: the reader parks here before reading the next packet
	nextID  uint16
	connack byte
}

func (vb *vBroker) dial(id string) *vClient {
	conn, srv, err := vb.l.DialFlaky()
	if err != nil {
		panic(err)
	}
	vb.mutex.Lock()
	vb.conns = append(vb.conns, conn)
	vb.mutex.Unlock()
	return &vClient{id: id, conn: conn, srv: srv, nextID: 100}
}

// connect opens a connection and performs the CONNECT handshake; the return code is in c.connack
// (0xff: the broker closed the connection without CONNACK).
func (vb *vBroker) connect(id string, clean bool) *vClient {
	c := vb.dial(id)
	p := packets.NewControlPacket(packets.Connect).(*packets.ConnectPacket)
	p.ClientIdentifier, p.CleanSession = id, clean
	p.ProtocolName, p.ProtocolVersion = "MQTT", 4
	p.Keepalive = 0
	c.startReading()
	c.send(p)
	synctest.Wait()
	c.connack = 0xff
	for _, r := range c.take() {
		if ack, ok := r.(*packets.ConnackPacket); ok {
			c.connack = ack.ReturnCode
		}
	}
	return c
}

func (c *vClient) startReading() {
	c.reading = true
	go func() {
		for {
			c.mu.Lock()
			g := c.gate
			c.mu.Unlock()
			if g != nil {
				<-g
			}
			p, err := packets.ReadPacket(c.conn)
			if err != nil {
				c.mu.Lock()
				c.eof = true
				c.mu.Unlock()
				return
			}
			c.mu.Lock()
			c.recv = append(c.recv, p)
			ack := c.autoAck
			c.mu.Unlock()
			if pub, ok := p.(*packets.PublishPacket); ok && ack && pub.Qos == 1 {
				a := packets.NewControlPacket(packets.Puback).(*packets.PubackPacket)
				a.MessageID = pub.MessageID
				a.Write(c.conn)
			}
		}
	}()
}

func (c *vClient) send(p packets.ControlPacket) error {
	// a write to a net.Pipe blocks until the peer reads; do it from a goroutine so that a broker
	// that does not read (any more) cannot wedge the harness
	errc := make(chan error, 1)
	go func() { errc <- p.Write(c.conn) }()
	synctest.Wait()
	select {
	case err := <-errc:
		return err
	default:
		return fmt.Errorf("write not consumed by the broker")
	}
}

// stopReading makes the client stop reading from its connection (the reader, which is blocked inside a read,
// parks after the next packet: a PINGREQ is sent to have that packet arrive); resumeReading undoes it.
func (c *vClient) stopReading() {
	c.mu.Lock()
	c.gate = make(chan struct{})
	c.mu.Unlock()
	c.send(packets.NewControlPacket(packets.Pingreq))
	synctest.Wait()
}

func (c *vClient) resumeReading() {
	c.mu.Lock()
	g := c.gate
	c.gate = nil
	c.mu.Unlock()
	if g != nil {
		close(g)
	}
	synctest.Wait()
}

// take returns and clears what has been received.
func (c *vClient) take() []packets.ControlPacket {
	c.mu.Lock()
	defer c.mu.Unlock()
	r := c.recv
	c.recv = nil
	return r
}

func (c *vClient) closedByBroker() bool {
	c.mu.Lock()
	defer c.mu.Unlock()
	return c.eof
}

func (c *vClient) subscribe(topic string, qos byte) bool {
	p := packets.NewControlPacket(packets.Subscribe).(*packets.SubscribePacket)
	c.nextID++
	p.MessageID = c.nextID
	p.Topics, p.Qoss, p.Qos = []string{topic}, []byte{qos}, 1
	c.send(p)
	synctest.Wait()
	for _, r := range c.peek() {
		if a, ok := r.(*packets.SubackPacket); ok && a.MessageID == p.MessageID {
			return true
		}
	}
	return false
}

func (c *vClient) peek() []packets.ControlPacket {
	c.mu.Lock()
	defer c.mu.Unlock()
	return append([]packets.ControlPacket{}, c.recv...)
}

func (c *vClient) publish(topic string, qos byte, id uint16) {
	p := packets.NewControlPacket(packets.Publish).(*packets.PublishPacket)
	p.TopicName, p.Qos, p.MessageID, p.Payload = topic, qos, id, []byte("m")
	c.send(p)
	synctest.Wait()
}

func (c *vClient) puback(id uint16) {
	a := packets.NewControlPacket(packets.Puback).(*packets.PubackPacket)
	a.MessageID = id
	c.send(a)
	synctest.Wait()
}

func (c *vClient) disconnectPacket() {
	c.send(packets.NewControlPacket(packets.Disconnect))
	synctest.Wait()
}

// drop closes the client's end of the pipe: the broker's read loop for this connection notices now.
func (c *vClient) drop() {
	c.conn.Close()
	synctest.Wait()
}

// publishes returns the PUBLISH packets in ps.
func publishesOf(ps []packets.ControlPacket) []*packets.PublishPacket {
	var out []*packets.PublishPacket
	for _, p := range ps {
		if pub, ok := p.(*packets.PublishPacket); ok {
			out = append(out, pub)
		}
	}
	return out
}
