//go:build verif

package httpserver

// C01 — every rule set (<=2 rules, <=3 path entries from a 17-entry menu, every order) x
// 192 requests through the real mux, compared with the reference router of DESIGN A.1.

import (
	"fmt"
	"testing"

	"github.com/megaease/easegress/pkg/zzverif/mc"
)

// ---- alphabet ----

func c01Menu() []vEntry {
	x1 := []vHdr{{Key: "X", Values: []string{"1"}}}
	x2re := []vHdr{{Key: "X", Regexp: "^2$"}}
	xy := []vHdr{{Key: "X", Values: []string{"1"}}, {Key: "Y", Values: []string{"1"}}}
	const re = "^/a(/.*)?$"
	return []vEntry{
		{Backend: "p1"},
		{Path: "/a", Backend: "p1"},
		{Path: "/a", Rewrite: "/r", Backend: "p2"},
		{Prefix: "/a", Backend: "p2"},
		{Prefix: "/a", Rewrite: "/r", Backend: "p1"},
		{Regexp: re, Backend: "p1"},
		{Regexp: re, Rewrite: "/r$1", Backend: "p2"},
		{Prefix: "/a/", Regexp: "^/c$", Backend: "p2"},
		{Path: "/a", Methods: []string{"GET"}, Backend: "p1"},
		{Prefix: "/a", Methods: []string{"POST"}, Backend: "p2"},
		{Path: "/a", Headers: x1, Backend: "p2"},
		{Prefix: "/a", Headers: x2re, Backend: "p1"},
		{Headers: xy, Backend: "p2"},
		{Prefix: "/a", Headers: xy, MatchAll: true, Backend: "p1"},
		{Path: "/a", Backend: "missing"},
		{Path: "/a", Methods: []string{"GET"}, Headers: x1, Rewrite: "/r", Backend: "p2"},
		{Methods: []string{"GET"}, Backend: "p1"},
	}
}

func c01Requests() []vReq {
	var rs []vReq
	for _, host := range []string{"a.com", "a.com:8080", "b.com", "[::1]:80", "A.com"} {
		for _, path := range []string{"/a", "/a/b", "/ab", "/c", "/a/a/b"} {
			for _, m := range []string{"GET", "POST"} {
				for _, x := range []string{"", "1", "2"} {
					for _, y := range []string{"", "1"} {
						q := vReq{Host: host, Path: path, Method: m}
						if x != "" {
							q.Hdr = append(q.Hdr, [2]string{"X", x})
						}
						if y != "" {
							q.Hdr = append(q.Hdr, [2]string{"Y", y})
						}
						rs = append(rs, q)
					}
				}
			}
		}
	}
	return rs
}

var c01Hosts = []vRule{{}, {Host: "a.com"}, {HostRegexp: `^a\.com$`}, {Host: "b.com", HostRegexp: `^a\.`}}

func TestVerifC01(t *testing.T) {
	env := mc.GetEnv()
	shapes := [][]int{{1}, {2}, {1, 1}}
	if env.Thorough() {
		shapes = append(shapes, []int{3}, []int{1, 2}, []int{2, 1})
	}
	menu := c01Menu()
	reqs := c01Requests()
	backends := map[string]bool{"p1": true, "p2": true}
	var res *mc.Result
	run := func(c *mc.Ctx) {
		shape := shapes[c.Choose(len(shapes), "shape")]
		var rules []vRule
		for ri, n := range shape {
			r := c01Hosts[c.Choose(len(c01Hosts), fmt.Sprintf("host%d", ri))]
			for k := 0; k < n; k++ {
				r.Entries = append(r.Entries, menu[c.Choose(len(menu), fmt.Sprintf("entry%d.%d", ri, k))])
			}
			rules = append(rules, r)
		}
		y := vServerYAML(rules, "")
		c.Note("spec:\n%s", y)
		rig, err := newVRig(y)
		if err != nil {
			c.Failf("spec-rejected", "validation rejected a rule set of the alphabet: %v\n%s", err, y)
		}
		rig.backends = backends
		for _, q := range reqs {
			got := rig.do(q)
			want := refRoute(rules, q, backends)
			if res != nil {
				res.Outcomes[fmt.Sprintf("%d", want.Status)]++
			}
			if got.Status != want.Status || got.Backend != want.Backend || got.Path != want.Path {
				c.Note("request: %s", q)
				c.Failf(fmt.Sprintf("route:want=%d/%s,got=%d/%s", want.Status, c01cls(want, q), got.Status, c01cls(got, q)),
					"request %s\nexpected %s\nobserved %s\nspec:\n%s", q, want, got, y)
			}
		}
		if res != nil {
			res.Count("requests", int64(len(reqs)))
		}
	}
	job := mc.Job{Name: "rulesets",
		Run: func(r *mc.Result, env *mc.Env) {
			res = r
			mc.Explore(r, mc.Options{Job: "rulesets", MaxDev: -1, SubShard: env.Shard, SubN: env.NShards, SubDepth: 4, Env: env}, run)
			res = nil
		},
		Replay: func(ch []int) (*mc.Failure, []string) { return mc.ReplayOne(run, ch) }}
	// header matchers, systematically: one entry with 1-2 matchers (values only, regexp only, both agreeing, both
	// contradicting) on headers X / Y, with and without matchAllHeader, with and without a later header-less
	// entry, against every combination of request header values incl. absent headers
	xm := []vHdr{{Key: "X", Values: []string{"1"}}, {Key: "X", Regexp: "^2$"}, {Key: "X", Values: []string{"1", "3"}, Regexp: "^[12]$"}, {Key: "X", Values: []string{"2"}, Regexp: "^1$"}, {Key: "X", Regexp: "^$"}}
	ym := []vHdr{{Key: "Y", Values: []string{"1"}}, {Key: "Y", Regexp: "^1$"}, {Key: "Y", Values: []string{"1", "2"}, Regexp: "^2$"}}
	var hreqs []vReq
	for _, x := range []string{"", "1", "2", "3"} {
		for _, y := range []string{"", "1", "2"} {
			q := vReq{Host: "a.com", Path: "/a", Method: "GET"}
			if x != "" {
				q.Hdr = append(q.Hdr, [2]string{"X", x})
			}
			if y != "" {
				q.Hdr = append(q.Hdr, [2]string{"Y", y})
			}
			hreqs = append(hreqs, q)
		}
	}
	hdrRun := func(c *mc.Ctx) {
		e := vEntry{Path: "/a", Backend: "p1"}
		order := c.Choose(2, "y-first")
		hx := xm[c.Choose(len(xm), "x-matcher")]
		e.Headers = []vHdr{hx}
		if k := c.Choose(len(ym)+1, "y-matcher"); k > 0 {
			if order == 1 {
				e.Headers = []vHdr{ym[k-1], hx}
			} else {
				e.Headers = append(e.Headers, ym[k-1])
			}
		}
		e.MatchAll = c.Choose(2, "matchAllHeader") == 1
		r := vRule{Entries: []vEntry{e}}
		if c.Choose(2, "fallback-entry") == 1 {
			r.Entries = append(r.Entries, vEntry{Path: "/a", Backend: "p2"})
		}
		rules := []vRule{r}
		y := vServerYAML(rules, "")
		c.Note("spec:\n%s", y)
		rig, err := newVRig(y)
		if err != nil {
			c.Failf("spec-rejected", "validation rejected a rule set of the alphabet: %v\n%s", err, y)
		}
		rig.backends = backends
		for _, q := range hreqs {
			got := rig.do(q)
			want := refRoute(rules, q, backends)
			if got.Status != want.Status || got.Backend != want.Backend || got.Path != want.Path {
				c.Note("request: %s", q)
				c.Failf(fmt.Sprintf("header-matchers:want=%d/%s,got=%d/%s", want.Status, c01cls(want, q), got.Status, c01cls(got, q)),
					"request %s\nexpected %s\nobserved %s\nspec:\n%s", q, want, got, y)
			}
			c.AddOutcome(fmt.Sprintf("hdr-%d-%s", want.Status, want.Backend))
		}
	}
	mc.RunJobsAll("C01", []mc.Job{job, mc.ExploreJob(mc.Options{Job: "header-matchers", MaxDev: -1}, hdrRun)})
}

// c01cls classifies an observation for the finding key.
func c01cls(o vObs, q vReq) string {
	if o.Backend == "" {
		return "-"
	}
	if o.Path != q.Path {
		return o.Backend + "+rewritten"
	}
	return o.Backend
}
