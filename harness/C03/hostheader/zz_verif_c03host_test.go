//go:build verif

package proxy

// C03, Host clause — "the Host sent is the client's Host for IP-addressed or keepHost servers and the server's own
// host name otherwise": every form of server URL (IPv4 / IPv6 literal / host name, with and without port, http and
// https) x keepHost, through the real ServerPool request preparation; the request the pool hands to its HTTP client
// (fnSendRequest stubbed) must carry the expected Host.

import (
	"fmt"
	"net"
	"net/http"
	"net/url"
	"testing"

	"github.com/megaease/easegress/pkg/zzverif/mc"
)

func TestVerifC03host(t *testing.T) {
	urls := []string{
		"http://10.0.0.1", "http://10.0.0.1:8080", "https://10.0.0.1:8443",
		"http://[::1]", "http://[::1]:8080", "https://[2001:db8::17]", "https://[2001:db8::17]:8443",
		"http://backend.example", "http://backend.example:8080", "https://backend.example", "http://localhost:9", "http://10.0.0.1.example",
	}
	run := func(c *mc.Ctx) {
		u := urls[c.Choose(len(urls), "server-url")]
		keep := c.Choose(2, "keepHost") == 1
		y := fmt.Sprintf("name: proxy\nkind: Proxy\npools:\n- servers:\n  - url: %s\n", u)
		if keep {
			y += "    keepHost: true\n"
		}
		p, err := vNewProxy(y, nil)
		if err != nil {
			c.Failf("spec-rejected", "%v\n%s", err, y)
		}
		var seenHost, seenURLHost string
		fnSendRequest = func(r *http.Request, client *http.Client) (*http.Response, error) {
			seenHost, seenURLHost = r.Host, r.URL.Host
			return &http.Response{StatusCode: 200, Header: http.Header{}, Body: http.NoBody}, nil
		}
		stdr, _ := http.NewRequest("GET", "http://front.example/x", nil)
		vHandle(p, stdr)
		pu, _ := url.Parse(u)
		isIP := net.ParseIP(pu.Hostname()) != nil
		want := pu.Host
		if isIP || keep {
			want = "front.example"
		}
		if seenHost != want {
			kind := "host-name-server-got-the-clients-host"
			if want == "front.example" {
				kind = "ip-addressed-or-keepHost-server-got-its-own-address-as-host"
			}
			c.Failf("host-header:"+kind, "server %s keepHost=%v: the request sent to the backend carries Host %q (URL host %q), expected %q", u, keep, seenHost, seenURLHost, want)
		}
		c.Outcome(fmt.Sprintf("ip=%v keep=%v", isIP, keep))
	}
	mc.RunJobs("C03", []mc.Job{mc.ExploreJob(mc.Options{Job: "host-header", MaxDev: -1}, run)})
}
