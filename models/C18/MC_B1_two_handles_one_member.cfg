CONSTANTS
  Goroutines <- G
  HandleOf <- HOf
  MemberOf <- MOf
INIT Init
NEXT Next
INVARIANT AtMostOneHolder
INVARIANT TypeOK
CHECK_DEADLOCK FALSE
