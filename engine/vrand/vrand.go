// Package vrand substitutes for "math/rand" in instrumented files: when a chooser is
// installed every random answer is an explorer choice (all answers are explored).
package vrand

import (
	"math/rand"
	"sync/atomic"
)

// Chooser is the part of mc.Ctx needed here.
type Chooser interface {
	Choose(n int, label string) int
}

type holder struct{ c Chooser }

var cur atomic.Value // *holder

// Set installs (or with nil removes) the chooser.
func Set(c Chooser) {
	if c == nil {
		cur.Store((*holder)(nil))
		return
	}
	cur.Store(&holder{c})
}

// MaxN bounds the fan-out of one random draw; larger ranges are explored at their ends and middle.
const MaxN = 16

func choose(n int, label string) (int, bool) {
	h, _ := cur.Load().(*holder)
	if h == nil {
		return 0, false
	}
	if n <= MaxN {
		return h.c.Choose(n, label), true
	}
	// representative answers: 0, 1, n/2, n-2, n-1 (recorded in evidence as a cap by the harness)
	reps := []int{0, 1, n / 2, n - 2, n - 1}
	return reps[h.c.Choose(len(reps), label+"(reps)")], true
}

func Intn(n int) int {
	if n <= 0 {
		panic("invalid argument to Intn")
	}
	if v, ok := choose(n, "rand.Intn"); ok {
		return v
	}
	return rand.Intn(n)
}

func Int63n(n int64) int64 {
	if n <= 1<<30 {
		if v, ok := choose(int(n), "rand.Int63n"); ok {
			return int64(v)
		}
	}
	return rand.Int63n(n)
}

func Int31n(n int32) int32 {
	if v, ok := choose(int(n), "rand.Int31n"); ok {
		return int32(v)
	}
	return rand.Int31n(n)
}

func Float64() float64 {
	h, _ := cur.Load().(*holder)
	if h == nil {
		return rand.Float64()
	}
	return []float64{0, 0.5, 0.999999}[h.c.Choose(3, "rand.Float64")]
}

func Int() int       { return rand.Int() }
func Int63() int64   { return rand.Int63() }
func Uint32() uint32 { return rand.Uint32() }
func Seed(s int64)   { rand.Seed(s) }
func Perm(n int) []int {
	return rand.Perm(n)
}
func Shuffle(n int, swap func(i, j int)) { rand.Shuffle(n, swap) }

type (
	Rand   = rand.Rand
	Source = rand.Source
)

func New(s Source) *Rand          { return rand.New(s) }
func NewSource(seed int64) Source { return rand.NewSource(seed) }
