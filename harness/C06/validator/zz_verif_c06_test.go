//go:build verif

package validator

// C06 — Validator soundness and completeness.  Credentials are produced by an INDEPENDENT issuer in this
// file (own HS-JWT encoder; own implementation of the documented SigV4-compatible signing scheme with the
// ME literals; own Basic header encoder and htpasswd file writer).  Every request is turned into the
// form a filter sees behind the HTTP server (body already read into the payload by FetchPayload).
// Oracle: base request accepted (result "", no response); every single mutation of a covered part
// rejected with result "invalid" and 401 (400 for header rules).

import (
	"bytes"
	"crypto/hmac"
	"crypto/sha1"
	"crypto/sha256"
	"crypto/sha512"
	"encoding/base64"
	"encoding/hex"
	"fmt"
	"hash"
	"io"
	"net/http"
	"net/http/httptest"
	"net/url"
	"os"
	"path/filepath"
	"sort"
	"strings"
	"testing"
	"time"

	"github.com/golang-jwt/jwt"
	"golang.org/x/crypto/bcrypt"
	yaml "gopkg.in/yaml.v2"

	"github.com/megaease/easegress/pkg/context"
	"github.com/megaease/easegress/pkg/filters"
	"github.com/megaease/easegress/pkg/logger"
	"github.com/megaease/easegress/pkg/protocols/httpprot"
	"github.com/megaease/easegress/pkg/tracing"
	"github.com/megaease/easegress/pkg/util/readers"
	"github.com/megaease/easegress/pkg/zzverif/mc"
)

func init() { logger.InitNop() }

// ---------- rig ----------

type c06Req struct {
	method, path, rawQuery string
	hdr                    http.Header
	body                   []byte
	host                   string
	chunked                bool // the body arrives with Transfer-Encoding: chunked (no declared length)
}

func (r *c06Req) clone() *c06Req {
	c := *r
	c.hdr = r.hdr.Clone()
	c.body = append([]byte{}, r.body...)
	return &c
}

func (r *c06Req) String() string {
	b := string(r.body)
	if len(b) > 20 {
		b = fmt.Sprintf("%s...(%d bytes)", b[:20], len(b))
	}
	return fmt.Sprintf("%s %s?%s hdr=%v body=%q", r.method, r.path, r.rawQuery, r.hdr, b)
}

// std builds the request as net/http's server would hand it to the mux, then does what
// muxInstance.serveHTTP does before the pipeline runs.
func (r *c06Req) toFilterInput() *httpprot.Request {
	target := "http://" + r.host + r.path
	if r.rawQuery != "" {
		target += "?" + r.rawQuery
	}
	var body io.Reader
	if len(r.body) > 0 {
		body = bytes.NewReader(r.body)
	}
	stdr := httptest.NewRequest(r.method, target, body)
	stdr.Header = r.hdr.Clone()
	stdr.Host = r.host
	if r.chunked && len(r.body) > 0 {
		// what net/http's server hands over for a chunked request body
		stdr.ContentLength = -1
		stdr.TransferEncoding = []string{"chunked"}
	}
	stdr.Body = readers.NewByteCountReader(stdr.Body)
	req, _ := httpprot.NewRequest(stdr)
	if err := req.FetchPayload(0); err != nil {
		panic(err)
	}
	return req
}

func c06NewValidator(y string) (*Validator, error) {
	var raw map[string]interface{}
	if err := yaml.Unmarshal([]byte(y), &raw); err != nil {
		panic(err)
	}
	spec, err := filters.NewSpec(nil, "p", raw)
	if err != nil {
		return nil, err
	}
	v := kind.CreateInstance(spec).(*Validator)
	v.Init()
	return v, nil
}

func c06Handle(v *Validator, r *c06Req) (string, int) {
	req := r.toFilterInput()
	ctx := context.New(tracing.NoopSpan)
	ctx.SetInputRequest(req)
	res := v.Handle(ctx)
	status := 0
	if resp := ctx.GetOutputResponse(); resp != nil {
		status = resp.(*httpprot.Response).StatusCode()
	}
	return res, status
}

// ---------- independent issuer: JWT ----------

func b64u(b []byte) string { return base64.RawURLEncoding.EncodeToString(b) }

func c06JWT(alg string, secret []byte, claims string) string {
	var h func() hash.Hash
	switch alg {
	case "HS256":
		h = sha256.New
	case "HS384":
		h = sha512.New384
	case "HS512":
		h = sha512.New
	}
	head := b64u([]byte(fmt.Sprintf(`{"alg":"%s","typ":"JWT"}`, alg)))
	pay := b64u([]byte(claims))
	sig := ""
	if h != nil {
		m := hmac.New(h, secret)
		m.Write([]byte(head + "." + pay))
		sig = b64u(m.Sum(nil))
	}
	return head + "." + pay + "." + sig
}

// ---------- independent issuer: SigV4-compatible signature with the ME literals ----------

func hmac256(key, data []byte) []byte {
	m := hmac.New(sha256.New, key)
	m.Write(data)
	return m.Sum(nil)
}

func sha256hex(b []byte) string {
	s := sha256.Sum256(b)
	return hex.EncodeToString(s[:])
}

func sigv4Escape(s string, keepSlash bool) string {
	var b strings.Builder
	for i := 0; i < len(s); i++ {
		c := s[i]
		if (c >= 'A' && c <= 'Z') || (c >= 'a' && c <= 'z') || (c >= '0' && c <= '9') || c == '-' || c == '.' || c == '_' || c == '~' || (keepSlash && c == '/') {
			b.WriteByte(c)
		} else {
			fmt.Fprintf(&b, "%%%02X", c)
		}
	}
	return b.String()
}

func sigv4TrimAll(v string) string {
	return strings.Join(strings.Fields(v), " ")
}

type c06SignOpts struct {
	keyID, secret string
	scopes        []string
	when          time.Time
	presign       bool
	expires       int
}

// c06Sign signs r in place (header style or query style).  decodedPath is the path before escaping.
func c06Sign(r *c06Req, decodedPath string, o c06SignOpts) {
	date := o.when.UTC().Format("20060102")
	tm := o.when.UTC().Format("20060102T150405Z")
	scope := date
	for _, s := range o.scopes {
		scope += "/" + s
	}
	scope += "/megaease_request"
	q, _ := url.ParseQuery(r.rawQuery)
	// canonical headers: host + all headers except Authorization and User-Agent
	names := []string{"host"}
	vals := map[string]string{"host": r.host}
	if !o.presign {
		r.hdr.Set("X-Me-Date", tm)
	}
	for k, v := range r.hdr {
		lk := strings.ToLower(k)
		if lk == "authorization" || lk == "user-agent" {
			continue
		}
		var tv []string
		for _, x := range v {
			tv = append(tv, sigv4TrimAll(x))
		}
		names = append(names, lk)
		vals[lk] = strings.Join(tv, ",")
	}
	sort.Strings(names)
	signed := strings.Join(names, ";")
	ch := ""
	for _, n := range names {
		ch += n + ":" + vals[n] + "\n"
	}
	if o.presign {
		q.Set("X-Me-Algorithm", "ME-HMAC-SHA256")
		q.Set("X-Me-Date", tm)
		q.Set("X-Me-Credential", o.keyID+"/"+scope)
		q.Set("X-Me-Expires", fmt.Sprint(o.expires))
		q.Set("X-Me-SignedHeaders", signed)
	}
	// canonical query: sorted by key, values sorted, RFC 3986 escaping
	var keys []string
	for k := range q {
		keys = append(keys, k)
	}
	sort.Strings(keys)
	var cq []string
	for _, k := range keys {
		vs := append([]string{}, q[k]...)
		sort.Strings(vs)
		for _, v := range vs {
			cq = append(cq, url.QueryEscape(k)+"="+url.QueryEscape(v))
		}
	}
	bodyHash := sha256hex(r.body)
	// SigV4 (non-S3 services): the canonical URI is the URI-encoded form of the already URI-encoded path
	creq := strings.Join([]string{r.method, sigv4Escape(sigv4Escape(decodedPath, true), true), strings.Join(cq, "&"), ch, signed, bodyHash}, "\n")
	sts := strings.Join([]string{"ME-HMAC-SHA256", tm, scope, sha256hex([]byte(creq))}, "\n")
	key := hmac256([]byte("ME"+o.secret), []byte(date))
	for _, s := range o.scopes {
		key = hmac256(key, []byte(s))
	}
	key = hmac256(key, []byte("megaease_request"))
	sig := hex.EncodeToString(hmac256(key, []byte(sts)))
	if o.presign {
		q.Set("X-Me-Signature", sig)
		r.rawQuery = strings.Replace(q.Encode(), "+", "%20", -1)
	} else {
		r.hdr.Set("Authorization", fmt.Sprintf("ME-HMAC-SHA256 Credential=%s/%s, SignedHeaders=%s, Signature=%s", o.keyID, scope, signed, sig))
	}
}

// ---------- mutations ----------

type c06Mut struct {
	name  string
	apply func(r *c06Req) bool // false: not applicable to this base request
}

func flipByte(s string, at int) string {
	b := []byte(s)
	if b[at] == 'A' {
		b[at] = 'B'
	} else if b[at] == '0' {
		b[at] = '1'
	} else if b[at] >= 'a' && b[at] <= 'e' {
		b[at]++
	} else {
		b[at] = 'A'
	}
	return string(b)
}

// ---------- the check ----------

func TestVerifC06(t *testing.T) {
	tmp, _ := os.MkdirTemp("", "verif-c06-")
	defer os.RemoveAll(tmp)
	var jobs []mc.Job

	fail := func(c *mc.Ctx, method, what string, base bool, r *c06Req, res string, status int, spec string) {
		if base {
			cls := what
			if method == "signature" {
				// class of the failing input, not the full variant
				cls = "no-body"
				if len(r.body) > 0 {
					cls = "with-body"
				}
				if strings.Contains(r.path, "%") {
					cls += ",escaped-path"
				}
				if r.rawQuery != "" && !strings.HasPrefix(r.rawQuery, "X-Me-") {
					cls += ",query"
				}
			} else if method == "jwt" || method == "headers" {
				cls = "any"
			}
			c.Failf("valid-request-rejected:"+method+":"+cls, "a request with valid %s credentials (%s) was rejected: result %q status %d\nrequest: %s\nspec:\n%s", method, what, res, status, r, spec)
		}
		c.Failf("mutated-request-accepted:"+method+":"+what, "mutation %q of an accepted %s request was not rejected properly: result %q status %d\nrequest: %s\nspec:\n%s", what, method, res, status, r, spec)
	}
	check := func(c *mc.Ctx, v *Validator, method, variant string, base *c06Req, muts []c06Mut, rejectStatus int, spec string) {
		res, status := c06Handle(v, base)
		c.Note("base (%s): %s -> %q %d", variant, base, res, status)
		if res != "" || status != 0 {
			fail(c, method, variant, true, base, res, status, spec)
		}
		k := c.Choose(len(muts)+1, "mutation")
		if k == 0 {
			c.Outcome(method + ":accepted:" + variant)
			return
		}
		m := muts[k-1]
		r := base.clone()
		if !m.apply(r) {
			c.Outcome(method + ":mutation-n/a")
			return
		}
		res, status = c06Handle(v, r)
		c.Note("mutation %s: %s -> %q %d", m.name, r, res, status)
		if res != resultInvalid || status != rejectStatus {
			fail(c, method, m.name, false, r, res, status, spec)
		}
		c.Outcome(method + ":rejected:" + m.name)
	}

	// ---- JWT ----
	jwtRun := func(c *mc.Ctx) {
		alg := []string{"HS256", "HS384", "HS512"}[c.Choose(3, "alg")]
		secrets := []string{"6d79736563726574", "00112233445566778899aabbccddeeff"}
		si := c.Choose(2, "secret")
		secret, _ := hex.DecodeString(secrets[si])
		other, _ := hex.DecodeString(secrets[1-si])
		now := time.Now().Unix()
		claims := []string{`{"sub":"u"}`, fmt.Sprintf(`{"sub":"u","exp":%d}`, now+3600), fmt.Sprintf(`{"sub":"u","nbf":%d}`, now-3600),
			fmt.Sprintf(`{"sub":"u","exp":%d,"nbf":%d}`, now+3600, now-3600)}
		ci := c.Choose(len(claims), "claims")
		cookie := c.Choose(2, "token-in-cookie") == 1
		spec := fmt.Sprintf("name: v\nkind: Validator\njwt:\n  algorithm: %s\n  secret: %s\n", alg, secrets[si])
		if cookie {
			spec += "  cookieName: tok\n"
		}
		v, err := c06NewValidator(spec)
		if err != nil {
			c.Failf("spec-rejected", "%v\n%s", err, spec)
		}
		defer v.Close()
		put := func(r *c06Req, tok string) {
			if cookie {
				r.hdr.Set("Cookie", "tok="+tok)
			} else {
				r.hdr.Set("Authorization", "Bearer "+tok)
			}
		}
		tok := c06JWT(alg, secret, claims[ci])
		base := &c06Req{method: "GET", path: "/p", host: "h.example", hdr: http.Header{}}
		put(base, tok)
		// "currently valid" over the life of one filter instance: the library's clock seam (jwt.TimeFunc) is owned by the harness.
		// A token with nbf may first be presented two hours early (must be rejected, and must still be accepted at the right time);
		// mutation "same-token-after-its-expiry" re-presents the accepted token string two hours later.
		defer func() { jwt.TimeFunc = time.Now }()
		hasNbf, hasExp := ci == 2 || ci == 3, ci == 1 || ci == 3
		if hasNbf && c.Choose(2, "presented-two-hours-early-first") == 1 {
			jwt.TimeFunc = func() time.Time { return time.Unix(now-7200, 0) }
			res, status := c06Handle(v, base)
			jwt.TimeFunc = time.Now
			c.Note("early (now-2h): %s -> %q %d", base, res, status)
			if res != resultInvalid || status != 401 {
				fail(c, "jwt", "presented-before-nbf", false, base, res, status, spec)
			}
		}
		parts := strings.Split(tok, ".")
		otherAlg := map[string]string{"HS256": "HS512", "HS384": "HS256", "HS512": "HS384"}[alg]
		muts := []c06Mut{
			{"signature-byte-flipped", func(r *c06Req) bool { put(r, parts[0]+"."+parts[1]+"."+flipByte(parts[2], 5)); return true }},
			{"payload-byte-flipped", func(r *c06Req) bool {
				put(r, parts[0]+"."+b64u([]byte(strings.Replace(claims[ci], `"u"`, `"w"`, 1)))+"."+parts[2])
				return true
			}},
			{"signed-with-other-secret", func(r *c06Req) bool { put(r, c06JWT(alg, other, claims[ci])); return true }},
			{"other-hmac-algorithm-same-secret", func(r *c06Req) bool { put(r, c06JWT(otherAlg, secret, claims[ci])); return true }},
			{"alg-none", func(r *c06Req) bool { put(r, c06JWT("none", nil, claims[ci])); return true }},
			{"expired", func(r *c06Req) bool { put(r, c06JWT(alg, secret, fmt.Sprintf(`{"sub":"u","exp":%d}`, now-3600))); return true }},
			{"not-yet-valid", func(r *c06Req) bool { put(r, c06JWT(alg, secret, fmt.Sprintf(`{"sub":"u","nbf":%d}`, now+3600))); return true }},
			{"token-removed", func(r *c06Req) bool { r.hdr.Del("Cookie"); r.hdr.Del("Authorization"); return true }},
			{"signature-truncated", func(r *c06Req) bool { put(r, parts[0]+"."+parts[1]+"."+parts[2][:len(parts[2])-2]); return true }},
			{"same-token-after-its-expiry", func(r *c06Req) bool {
				if !hasExp {
					return false
				}
				jwt.TimeFunc = func() time.Time { return time.Unix(now+7200, 0) }
				return true
			}},
		}
		check(c, v, "jwt", fmt.Sprintf("%s/claims%d/cookie=%v", alg, ci, cookie), base, muts, 401, spec)
	}
	jobs = append(jobs, mc.ExploreJob(mc.Options{Job: "jwt", MaxDev: -1}, jwtRun))

	// ---- signature ----
	sigRun := func(c *mc.Ctx) {
		ttl := []string{"", "5m"}[c.Choose(2, "ttl")]
		spec := "name: v\nkind: Validator\nsignature:\n  accessKeys:\n    k1: secret-one\n    k2: secret-two\n"
		if ttl != "" {
			spec += "  ttl: " + ttl + "\n"
		}
		v, err := c06NewValidator(spec)
		if err != nil {
			c.Failf("spec-rejected", "%v\n%s", err, spec)
		}
		defer v.Close()
		method := []string{"GET", "POST"}[c.Choose(2, "method")]
		paths := [][2]string{{"/p", "/p"}, {"/a b", "/a%20b"}, {"/ü", "/%C3%BC"}}
		pi := c.Choose(len(paths), "path")
		query := []string{"", "b=2&a=1", "a=1&a=2", "q=x%20y"}[c.Choose(4, "query")]
		bodies := [][]byte{nil, []byte("x"), bytes.Repeat([]byte("0123456789abcdef"), 4096)}
		bi := c.Choose(len(bodies), "body")
		scopes := [][]string{nil, {"a", "b"}}[c.Choose(2, "scopes")]
		presign := c.Choose(2, "presign") == 1
		base := &c06Req{method: method, path: paths[pi][1], rawQuery: query, host: "h.example", hdr: http.Header{}, body: bodies[bi]}
		if bi > 0 {
			base.chunked = c.Choose(2, "body-arrives-chunked") == 1
		}
		base.hdr["X-A"] = []string{" v1   x ", "v2"}
		base.hdr.Set("X-B", "b")
		opts := c06SignOpts{keyID: "k1", secret: "secret-one", scopes: scopes, when: time.Now(), presign: presign, expires: 300}
		c06Sign(base, paths[pi][0], opts)
		resign := func(r *c06Req, o c06SignOpts) {
			r.hdr.Del("Authorization")
			r.hdr.Del("X-Me-Date")
			r.rawQuery = query
			c06Sign(r, paths[pi][0], o)
		}
		muts := []c06Mut{
			{"method-changed", func(r *c06Req) bool {
				r.method = map[string]string{"GET": "POST", "POST": "PUT"}[r.method]
				return true
			}},
			{"path-changed", func(r *c06Req) bool { r.path += "x"; return true }},
			{"query-value-changed", func(r *c06Req) bool {
				if query == "" {
					return false
				}
				r.rawQuery = strings.Replace(r.rawQuery, "a=1", "a=7", 1)
				r.rawQuery = strings.Replace(r.rawQuery, "q=x", "q=z", 1)
				return true
			}},
			{"query-parameter-added", func(r *c06Req) bool {
				if r.rawQuery == "" {
					r.rawQuery = "extra=1"
				} else {
					r.rawQuery += "&extra=1"
				}
				return true
			}},
			{"signed-header-value-changed", func(r *c06Req) bool { r.hdr.Set("X-B", "c"); return true }},
			{"signed-header-second-value-changed", func(r *c06Req) bool { r.hdr["X-A"] = []string{" v1   x ", "v3"}; return true }},
			{"body-changed", func(r *c06Req) bool {
				if len(r.body) == 0 {
					return false
				}
				r.body[len(r.body)-1] ^= 1
				return true
			}},
			{"body-added", func(r *c06Req) bool {
				if len(r.body) != 0 {
					return false
				}
				r.body = []byte("injected")
				return true
			}},
			{"chunked-body-added", func(r *c06Req) bool {
				if len(r.body) != 0 {
					return false
				}
				r.body, r.chunked = []byte("injected"), true
				return true
			}},
			{"body-removed", func(r *c06Req) bool {
				if len(r.body) == 0 {
					return false
				}
				r.body = nil
				return true
			}},
			{"signature-byte-flipped", func(r *c06Req) bool {
				if presign {
					i := strings.Index(r.rawQuery, "X-Me-Signature=") + len("X-Me-Signature=")
					r.rawQuery = r.rawQuery[:i] + flipByte(r.rawQuery[i:], 3)
				} else {
					a := r.hdr.Get("Authorization")
					i := strings.Index(a, "Signature=") + len("Signature=")
					r.hdr.Set("Authorization", a[:i]+flipByte(a[i:], 3))
				}
				return true
			}},
			{"signature-last-byte-flipped", func(r *c06Req) bool {
				if presign {
					i := strings.Index(r.rawQuery, "X-Me-Signature=") + len("X-Me-Signature=")
					r.rawQuery = r.rawQuery[:i] + flipByte(r.rawQuery[i:i+64], 63) + r.rawQuery[i+64:]
				} else {
					a := r.hdr.Get("Authorization")
					r.hdr.Set("Authorization", flipByte(a, len(a)-1))
				}
				return true
			}},
			{"signature-truncated", func(r *c06Req) bool {
				if presign {
					i := strings.Index(r.rawQuery, "X-Me-Signature=") + len("X-Me-Signature=")
					r.rawQuery = r.rawQuery[:i+16] + r.rawQuery[i+64:]
				} else {
					a := r.hdr.Get("Authorization")
					r.hdr.Set("Authorization", a[:len(a)-48])
				}
				return true
			}},
			{"access-key-id-swapped", func(r *c06Req) bool {
				if presign {
					r.rawQuery = strings.Replace(r.rawQuery, "X-Me-Credential=k1", "X-Me-Credential=k2", 1)
				} else {
					r.hdr.Set("Authorization", strings.Replace(r.hdr.Get("Authorization"), "Credential=k1/", "Credential=k2/", 1))
				}
				return true
			}},
			{"unknown-access-key", func(r *c06Req) bool { o := opts; o.keyID, o.secret = "k9", "whatever"; resign(r, o); return true }},
			{"signed-with-wrong-secret", func(r *c06Req) bool { o := opts; o.secret = "secret-two"; resign(r, o); return true }},
			{"older-than-ttl", func(r *c06Req) bool {
				if ttl == "" {
					return false
				}
				o := opts
				o.when = time.Now().Add(-5*time.Minute - time.Second)
				o.expires = 3600
				resign(r, o)
				return true
			}},
			{"presign-expired", func(r *c06Req) bool {
				if !presign || ttl != "" {
					return false
				}
				o := opts
				o.when = time.Now().Add(-301 * time.Second)
				resign(r, o)
				return true
			}},
		}
		check(c, v, "signature", fmt.Sprintf("%s path%d query%q body%d scopes%d presign=%v ttl=%q", method, pi, query, len(bodies[bi]), len(scopes), presign, ttl), base, muts, 401, spec)
	}
	jobs = append(jobs, mc.ExploreJob(mc.Options{Job: "signature", MaxDev: -1}, sigRun))

	// ---- basic auth (htpasswd FILE mode) ----
	users := []string{"u", "ü"}
	passwords := []string{"p", "p:q", "ü", "", "longer password with spaces", "p ", " p", "p\t"}
	schemes := []string{"bcrypt", "sha"}
	basicRun := func(c *mc.Ctx) {
		ui := c.Choose(len(users), "user")
		pi := c.Choose(len(passwords), "password")
		scheme := schemes[c.Choose(len(schemes), "scheme")]
		user, pw := users[ui], passwords[pi]
		var entry string
		if scheme == "bcrypt" {
			h, _ := bcrypt.GenerateFromPassword([]byte(pw), bcrypt.MinCost)
			entry = string(h)
		} else {
			s := sha1.Sum([]byte(pw))
			entry = "{SHA}" + base64.StdEncoding.EncodeToString(s[:])
		}
		file := filepath.Join(tmp, fmt.Sprintf("htpasswd-%d-%d-%s", ui, pi, scheme))
		os.WriteFile(file, []byte(user+":"+entry+"\nother:{SHA}"+base64.StdEncoding.EncodeToString([]byte("01234567890123456789"))+"\n"), 0o600)
		spec := fmt.Sprintf("name: v\nkind: Validator\nbasicAuth:\n  mode: FILE\n  userFile: %s\n", file)
		v, err := c06NewValidator(spec)
		if err != nil {
			c.Failf("spec-rejected", "%v\n%s", err, spec)
		}
		defer v.Close()
		auth := func(u, p string) string { return "Basic " + base64.StdEncoding.EncodeToString([]byte(u+":"+p)) }
		base := &c06Req{method: "GET", path: "/p", host: "h.example", hdr: http.Header{}}
		base.hdr.Set("Authorization", auth(user, pw))
		muts := []c06Mut{
			{"password-with-suffix-after-colon", func(r *c06Req) bool { r.hdr.Set("Authorization", auth(user, pw+":anything")); return true }},
			{"password-with-suffix", func(r *c06Req) bool { r.hdr.Set("Authorization", auth(user, pw+"x")); return true }},
			{"password-with-trailing-blank", func(r *c06Req) bool { r.hdr.Set("Authorization", auth(user, pw+" ")); return true }},
			{"password-with-trailing-newline", func(r *c06Req) bool { r.hdr.Set("Authorization", auth(user, pw+"\n")); return true }},
			{"password-with-trailing-crlf", func(r *c06Req) bool { r.hdr.Set("Authorization", auth(user, pw+"\r\n")); return true }},
			{"password-with-leading-blank", func(r *c06Req) bool { r.hdr.Set("Authorization", auth(user, " "+pw)); return true }},
			{"user-with-leading-blank", func(r *c06Req) bool { r.hdr.Set("Authorization", auth(" "+user, pw)); return true }},
			{"user-with-trailing-blank", func(r *c06Req) bool { r.hdr.Set("Authorization", auth(user+" ", pw)); return true }},
			{"password-without-its-last-byte", func(r *c06Req) bool {
				if len(pw) < 1 {
					return false
				}
				r.hdr.Set("Authorization", auth(user, pw[:len(pw)-1]))
				return true
			}},
			{"password-prefix-only", func(r *c06Req) bool {
				if len(pw) < 2 {
					return false
				}
				r.hdr.Set("Authorization", auth(user, pw[:1]))
				return true
			}},
			{"empty-password", func(r *c06Req) bool {
				if pw == "" {
					return false
				}
				r.hdr.Set("Authorization", auth(user, ""))
				return true
			}},
			{"other-user-same-password", func(r *c06Req) bool { r.hdr.Set("Authorization", auth("other", pw)); return true }},
			{"unknown-user", func(r *c06Req) bool { r.hdr.Set("Authorization", auth(user+"x", pw)); return true }},
			{"no-credentials", func(r *c06Req) bool { r.hdr.Del("Authorization"); return true }},
			{"not-base64", func(r *c06Req) bool { r.hdr.Set("Authorization", "Basic !!!"); return true }},
		}
		cls := "plain"
		if strings.Contains(pw, ":") {
			cls = "password-contains-colon"
		} else if pw == "" {
			cls = "empty-password"
		} else if pw == "ü" || user == "ü" {
			cls = "non-ascii"
		} else if strings.TrimSpace(pw) != pw {
			cls = "password-with-outer-white-space"
		}
		check(c, v, "basic", cls, base, muts, 401, spec)
	}
	jobs = append(jobs, mc.ExploreJob(mc.Options{Job: "basic", MaxDev: -1}, basicRun))

	// ---- header rules, alone and combined with JWT (every configured method must accept) ----
	hdrRun := func(c *mc.Ctx) {
		withJWT := c.Choose(2, "with-jwt") == 1
		spec := "name: v\nkind: Validator\nheaders:\n  X-Tag:\n    values: [a, b]\n    regexp: \"^v[0-9]+$\"\n  X-Must:\n    values: [\"yes\"]\n"
		if withJWT {
			spec += "jwt:\n  algorithm: HS256\n  secret: 6d79736563726574\n"
		}
		v, err := c06NewValidator(spec)
		if err != nil {
			c.Failf("spec-rejected", "%v\n%s", err, spec)
		}
		defer v.Close()
		tag := []string{"a", "b", "v12"}[c.Choose(3, "tag")]
		base := &c06Req{method: "GET", path: "/p", host: "h.example", hdr: http.Header{}}
		base.hdr.Set("X-Tag", tag)
		base.hdr.Set("X-Must", "yes")
		secret, _ := hex.DecodeString("6d79736563726574")
		if withJWT {
			base.hdr.Set("Authorization", "Bearer "+c06JWT("HS256", secret, `{"sub":"u"}`))
		}
		muts := []c06Mut{
			{"header-value-not-listed", func(r *c06Req) bool { r.hdr.Set("X-Tag", "c"); return true }},
			{"header-value-regexp-near-miss", func(r *c06Req) bool { r.hdr.Set("X-Tag", "v12x"); return true }},
			{"required-header-missing", func(r *c06Req) bool { r.hdr.Del("X-Must"); return true }},
			{"other-required-header-missing", func(r *c06Req) bool { r.hdr.Del("X-Tag"); return true }},
		}
		check(c, v, "headers", fmt.Sprintf("tag=%s jwt=%v", tag, withJWT), base, muts, 400, spec)
		if withJWT {
			// headers fine, token bad: the second method must still reject
			r := base.clone()
			r.hdr.Set("Authorization", "Bearer "+c06JWT("HS256", []byte("wrong"), `{"sub":"u"}`))
			if res, status := c06Handle(v, r); res != resultInvalid || status != 401 {
				fail(c, "headers+jwt", "valid-headers-bad-token", false, r, res, status, spec)
			}
		}
	}
	jobs = append(jobs, mc.ExploreJob(mc.Options{Job: "headers", MaxDev: -1}, hdrRun))

	etcdL := 2
	if mc.GetEnv().Thorough() {
		etcdL = 3
	}
	jobs = append(jobs, c06EtcdJob(etcdL))
	mc.RunJobs("C06", jobs)
}
