//go:build verif

package httpserver

// Shared rig for the httpserver harnesses (C01, C05, C12, C11): builds a real mux from
// YAML through supervisor.NewSpec (the admin API's validation path) and serves requests
// through mux.ServeHTTP with a recording MuxMapper.

import (
	"fmt"
	"net/http"
	"net/http/httptest"
	"strings"
	"sync"

	"github.com/megaease/easegress/pkg/context"
	"github.com/megaease/easegress/pkg/logger"
	"github.com/megaease/easegress/pkg/protocols/httpprot"
	"github.com/megaease/easegress/pkg/protocols/httpprot/httpstat"
	"github.com/megaease/easegress/pkg/supervisor"
)

func init() { logger.InitNop() }

// vObs is what a client / backend can observe of one request.
type vObs struct {
	Status  int
	Backend string // name of the handler invoked ("" = none)
	Path    string // path seen by the handler
	XFF     string // X-Forwarded-For seen by the handler
}

func (o vObs) String() string {
	return fmt.Sprintf("{status=%d backend=%q path=%q}", o.Status, o.Backend, o.Path)
}

type vReq struct {
	Host, Path, Method string
	Hdr                [][2]string
	Remote             string // RemoteAddr host (default 1.2.3.4)
	Body               string
}

func (r vReq) String() string {
	return fmt.Sprintf("%s http://%s%s %v from %s", r.Method, r.Host, r.Path, r.Hdr, r.Remote)
}

type vRig struct {
	m        *mux
	cur      *vObs
	backends map[string]bool
}

type vHandler struct {
	rig  *vRig
	name string
}

func (h *vHandler) Handle(ctx *context.Context) string {
	req := ctx.GetInputRequest().(*httpprot.Request)
	cur := h.rig.cur
	if id := req.HTTPHeader().Get("X-Verif-Obs"); id != "" {
		vIsoMu.Lock()
		cur = vIso[id]
		vIsoMu.Unlock()
	}
	cur.Backend = h.name
	cur.Path = req.Path()
	cur.XFF = req.HTTPHeader().Get("X-Forwarded-For")
	resp, _ := httpprot.NewResponse(nil)
	resp.SetStatusCode(200)
	ctx.SetOutputResponse(resp)
	return ""
}

func (r *vRig) GetHandler(name string) (context.Handler, bool) {
	if r.backends[name] {
		return &vHandler{r, name}, true
	}
	return nil, false
}

// newVRig returns an error if validation rejects the spec.
func newVRig(yamlSpec string) (*vRig, error) {
	ss, err := vNewSpec(yamlSpec)
	if err != nil {
		return nil, err
	}
	r := &vRig{backends: map[string]bool{"p1": true, "p2": true, "p3": true}}
	r.m = newMux(httpstat.New(), httpstat.NewTopN(10), r)
	r.m.reload(ss, r)
	return r, nil
}

func vNewSpec(yamlSpec string) (ss *supervisor.Spec, err error) {
	defer func() {
		if p := recover(); p != nil {
			err = fmt.Errorf("NewSpec panicked: %v", p)
		}
	}()
	return supervisor.NewSpec(yamlSpec)
}

// doIsolated is do() for concurrent callers: the observation travels in a request header instead of rig.cur.
func (r *vRig) doIsolated(q vReq) vObs {
	o := &vObs{}
	vIsoMu.Lock()
	vIsoSeq++
	id := fmt.Sprint(vIsoSeq)
	vIso[id] = o
	vIsoMu.Unlock()
	q.Hdr = append(q.Hdr, [2]string{"X-Verif-Obs", id})
	st := r.do(q)
	o.Status = st.Status
	vIsoMu.Lock()
	delete(vIso, id)
	vIsoMu.Unlock()
	return *o
}

var (
	vIsoMu  sync.Mutex
	vIsoSeq int
	vIso    = map[string]*vObs{}
)

func (r *vRig) do(q vReq) vObs {
	o := &vObs{}
	r.cur = o
	var body *strings.Reader
	if q.Body != "" {
		body = strings.NewReader(q.Body)
	}
	var stdr *http.Request
	if body != nil {
		stdr = httptest.NewRequest(q.Method, "http://"+q.Host+q.Path, body)
	} else {
		stdr = httptest.NewRequest(q.Method, "http://"+q.Host+q.Path, nil)
	}
	stdr.Host = q.Host
	for _, kv := range q.Hdr {
		stdr.Header.Add(kv[0], kv[1])
	}
	rem := q.Remote
	if rem == "" {
		rem = "1.2.3.4"
	}
	if strings.Contains(rem, ":") {
		stdr.RemoteAddr = "[" + rem + "]:5555"
	} else {
		stdr.RemoteAddr = rem + ":5555"
	}
	w := httptest.NewRecorder()
	r.m.ServeHTTP(w, stdr)
	o.Status = w.Code
	return *o
}
