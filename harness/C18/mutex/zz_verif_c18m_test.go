//go:build verif

package cluster

// C18 part 2 — conformance of the real cluster mutex (embedded etcd, a primary and a secondary member) with the TLA+
// model models/C18/ClusterMutex.tla.  TLC checks the invariant AtMostOneHolder on the model and dumps its labelled
// state graph; this harness enumerates every INPUT schedule (which goroutine calls Lock when, when the holder calls
// Unlock) and, while the real mutex runs, walks the state graph with what it observes: every Lock return of the
// implementation must be an Acquire transition the model allows in its current state (so a second holder, which
// the model-checked invariant excludes, is a disagreement), and when the model can only proceed by an Acquire, the
// implementation must produce one.  A separate probe looks for the double grant TLC finds for two handles of one member.

import (
	"encoding/json"
	"fmt"
	"os"
	"path/filepath"
	"sort"
	"strings"
	"sync"
	"sync/atomic"
	"testing"
	"time"

	"github.com/phayes/freeport"

	"github.com/megaease/easegress/pkg/env"
	"github.com/megaease/easegress/pkg/logger"
	"github.com/megaease/easegress/pkg/option"
	"github.com/megaease/easegress/pkg/zzverif/mc"
)

func init() { logger.InitNop() }

type c18Graph struct {
	Init       string            `json:"init"`
	Edges      [][4]string       `json:"edges"` // from, to, action, goroutine
	HandleOf   map[string]string `json:"handle_of"`
	MemberOf   map[string]string `json:"member_of"`
	Goroutines []string          `json:"goroutines"`
	out        map[string][][3]string
}

type c18File struct {
	Configs map[string]map[string]interface{} `json:"configs"`
	Graphs  map[string]*c18Graph              `json:"graphs"`
}

var c18Internal = map[string]bool{"LocalLock": true, "PutKey": true, "Wait": true}

func (g *c18Graph) closure(s map[string]bool) map[string]bool {
	out := map[string]bool{}
	var stack []string
	for n := range s {
		out[n] = true
		stack = append(stack, n)
	}
	for len(stack) > 0 {
		n := stack[len(stack)-1]
		stack = stack[:len(stack)-1]
		for _, e := range g.out[n] {
			if c18Internal[e[1]] && !out[e[0]] {
				out[e[0]] = true
				stack = append(stack, e[0])
			}
		}
	}
	return out
}

// step: states reachable by the observable event (after internal steps).
func (g *c18Graph) step(s map[string]bool, act, who string) map[string]bool {
	out := map[string]bool{}
	for n := range g.closure(s) {
		for _, e := range g.out[n] {
			if e[1] == act && e[2] == who {
				out[e[0]] = true
			}
		}
	}
	return out
}

func (g *c18Graph) acquireEnabled(s map[string]bool) bool {
	for n := range g.closure(s) {
		for _, e := range g.out[n] {
			if e[1] == "Acquire" {
				return true
			}
		}
	}
	return false
}

func c18Secondary(clusterName string, primaryPeerURLs []string) Cluster {
	return c18SecondaryT(clusterName, primaryPeerURLs, "secondary-member-x", "10s")
}

func c18SecondaryT(clusterName string, primaryPeerURLs []string, memberName, requestTimeout string) Cluster {
	ports, err := freeport.GetFreePorts(1)
	check(err)
	opt := option.New()
	opt.Name = memberName
	opt.ClusterName = clusterName
	opt.ClusterRole = "secondary"
	opt.ClusterRequestTimeout = requestTimeout
	opt.Cluster.PrimaryListenPeerURLs = primaryPeerURLs
	opt.APIAddr = fmt.Sprintf("localhost:%d", ports[0])
	_, err = opt.Parse()
	check(err)
	env.InitServerDir(opt)
	c, err := New(opt)
	check(err)
	return c
}

var c18Seq int64

func TestVerifC18mutex(t *testing.T) {
	_ = mc.GetEnv
	b, err := os.ReadFile(filepath.Join(os.Getenv("VERIF_WORK_UNIT"), "traces.json"))
	if err != nil {
		t.Fatalf("graphs: %v", err)
	}
	var tf c18File
	if err := json.Unmarshal(b, &tf); err != nil {
		t.Fatal(err)
	}
	tmp, _ := os.MkdirTemp("", "verif-c18-")
	defer os.RemoveAll(tmp)
	mc.OnExit = append(mc.OnExit, func() { os.RemoveAll(tmp) })
	primaryOpt := CreateOptionsForTest(tmp)
	primary, err := New(primaryOpt)
	check(err)
	for i := 0; i < 200; i++ {
		if _, err := primary.(*cluster).getClient(); err == nil {
			break
		}
		time.Sleep(HeartbeatInterval)
	}
	secondary := c18Secondary(primaryOpt.ClusterName, primaryOpt.Cluster.InitialAdvertisePeerURLs)
	members := map[string]Cluster{"m1": primary, "m2": secondary}

	var names []string
	for n := range tf.Graphs {
		names = append(names, n)
	}
	sort.Strings(names)
	var jobs []mc.Job
	for _, name := range names {
		name := name
		g := tf.Graphs[name]
		g.out = map[string][][3]string{}
		for _, e := range g.Edges {
			g.out[e[0]] = append(g.out[e[0]], [3]string{e[1], e[2], e[3]})
		}
		run := func(c *mc.Ctx) {
			lock := fmt.Sprintf("/verif/c18/lock-%d-%d", os.Getpid(), atomic.AddInt64(&c18Seq, 1))
			handles := map[string]Mutex{}
			for h, m := range g.MemberOf {
				mu, err := members[m].Mutex(lock)
				if err != nil {
					c.Failf("harness:mutex-handle", "%v", err)
				}
				handles[h] = mu
			}
			var mu sync.Mutex
			returned, failed := map[string]bool{}, map[string]error{}
			seen, unlocked, called := map[string]bool{}, map[string]bool{}, map[string]bool{}
			S := map[string]bool{g.Init: true}
			var hist []string
			// harvest: Lock returns observed since the last call become Acquire events of the model
			harvest := func() {
				mu.Lock()
				var news []string
				for who := range returned {
					if !seen[who] {
						news = append(news, who)
					}
				}
				var ferr error
				for who, e := range failed {
					ferr = fmt.Errorf("Lock of %s failed: %v", who, e)
				}
				mu.Unlock()
				if ferr != nil {
					c.Failf("mutex:lock-returned-error:"+name, "%v after %v", ferr, hist)
				}
				sort.Strings(news)
				for _, who := range news {
					seen[who] = true
					hist = append(hist, "Acquire("+who+")")
					S2 := g.step(S, "Acquire", who)
					if len(S2) == 0 {
						var holders []string
						for x := range seen {
							if !unlocked[x] {
								holders = append(holders, x)
							}
						}
						sort.Strings(holders)
						c.Failf("mutex:acquire-not-allowed-by-model:"+name, "config %s: the implementation's Lock returned for %s, which the model (invariant AtMostOneHolder checked by TLC) does not allow here; goroutines now between Lock and Unlock: %v; history %v", name, who, holders, hist)
					}
					S = S2
				}
			}
			holder := func() string {
				for x := range seen {
					if !unlocked[x] {
						return x
					}
				}
				return ""
			}
			ncall, nunlock := 0, 0
			n := len(g.Goroutines)
			for nunlock < n {
				// options: call one of the goroutines not called yet (in a fixed order), or let the holder unlock
				var opts []string
				for _, who := range g.Goroutines {
					if !called[who] {
						opts = append(opts, "call:"+who)
					}
				}
				if nunlock < ncall {
					opts = append(opts, "unlock")
				}
				o := opts[c.Choose(len(opts), fmt.Sprintf("input-%d-%d", ncall, nunlock))]
				if o == "unlock" {
					// somebody must get the lock (the model can only move on by an Acquire when nobody holds)
					deadline := time.Now().Add(20 * time.Second)
					for holder() == "" {
						harvest()
						if holder() != "" {
							break
						}
						if time.Now().After(deadline) {
							if g.acquireEnabled(S) {
								c.Failf("mutex:implementation-blocks-where-model-acquires:"+name, "config %s: nobody holds the lock, the model can grant it, the implementation granted nothing within 20s; history %v", name, hist)
							}
							c.Failf("harness:no-holder", "history %v", hist)
						}
						time.Sleep(time.Millisecond)
					}
					time.Sleep(25 * time.Millisecond) // give a wrongly admitted waiter time to show up
					harvest()
					who := holder()
					hist = append(hist, "Unlock("+who+")")
					S = g.step(S, "Unlock", who)
					if len(S) == 0 {
						c.Failf("harness:model-cannot-unlock", "history %v", hist)
					}
					unlocked[who] = true
					nunlock++
					if err := handles[g.HandleOf[who]].Unlock(); err != nil {
						c.Failf("mutex:unlock-error:"+name, "Unlock of %s: %v; history %v", who, err, hist)
					}
				} else {
					who := o[5:]
					called[who] = true
					ncall++
					hist = append(hist, "Call("+who+")")
					S = g.step(S, "Call", who)
					h := handles[g.HandleOf[who]]
					go func() {
						err := h.Lock()
						mu.Lock()
						if err != nil {
							failed[who] = err
						} else {
							returned[who] = true
						}
						mu.Unlock()
					}()
					time.Sleep(15 * time.Millisecond)
				}
				harvest()
			}
			c.Note("%v", hist)
			c.Outcome(name)
		}
		jobs = append(jobs, mc.Job{Name: "conformance/" + name,
			Run: func(r *mc.Result, e *mc.Env) {
				mc.Explore(r, mc.Options{Job: "conformance/" + name, MaxDev: -1, SubShard: e.Shard, SubN: e.NShards, SubDepth: 3, Env: e}, run)
			},
			Replay: func(ch []int) (*mc.Failure, []string) { return mc.ReplayOne(run, ch) }})
	}
	// "a failed or timed-out acquisition leaves it free for others": a member with a short request timeout fails to
	// acquire while another member holds the mutex; after the release every handle must be able to acquire it
	impatient := c18SecondaryT(primaryOpt.ClusterName, primaryOpt.Cluster.InitialAdvertisePeerURLs, "secondary-member-y", "1s")
	failedRun := func(c *mc.Ctx) {
		lock := fmt.Sprintf("/verif/c18/failed-%d-%d", os.Getpid(), atomic.AddInt64(&c18Seq, 1))
		holderH, err := primary.Mutex(lock)
		if err != nil {
			c.Failf("harness:mutex-handle", "%v", err)
		}
		loser, _ := impatient.Mutex(lock)
		other, _ := impatient.Mutex(lock)
		attempts := 1 + c.Choose(2, "failed-attempts")
		next := []string{"the-handle-that-failed", "another-handle-of-that-member", "the-previous-holder"}[c.Choose(3, "next-acquirer")]
		if !c.Mine() {
			return
		}
		if err := holderH.Lock(); err != nil {
			c.Failf("mutex:lock-returned-error:failed-acquisition", "holder: %v", err)
		}
		for i := 0; i < attempts; i++ {
			res := make(chan error, 1)
			go func() { res <- loser.Lock() }()
			select {
			case err := <-res:
				if err == nil {
					c.Failf("mutex:two-holders:failed-acquisition", "member 2 acquired the mutex while member 1 holds it")
				}
			case <-time.After(20 * time.Second):
				// the request timeout is 1 s: a Lock that neither succeeds nor fails is stuck on something a failed attempt left behind
				c.Failf("mutex:failed-acquisition-leaves-mutex-unusable:the-handle-that-failed", "attempt %d of a member with a 1 s request timeout to lock a mutex held by another member did not return within 20 s", i+1)
			}
		}
		if err := holderH.Unlock(); err != nil {
			c.Failf("mutex:unlock-error:failed-acquisition", "%v", err)
		}
		h := map[string]Mutex{"the-handle-that-failed": loser, "another-handle-of-that-member": other, "the-previous-holder": holderH}[next]
		got := make(chan error, 1)
		go func() { got <- h.Lock() }()
		select {
		case err := <-got:
			if err != nil {
				c.Failf("mutex:failed-acquisition-leaves-mutex-unusable:"+next, "after %d timed-out Lock call(s) of a member and the holder's Unlock, Lock by %s failed: %v", attempts, next, err)
			}
			h.Unlock()
		case <-time.After(20 * time.Second):
			c.Failf("mutex:failed-acquisition-leaves-mutex-unusable:"+next, "after %d timed-out Lock call(s) of a member and the holder's Unlock, Lock by %s did not return within 20 s although nobody holds the mutex", attempts, next)
		}
		c.Outcome(fmt.Sprintf("failed%d-then-%s", attempts, next))
	}
	jobs = append(jobs, mc.Job{Name: "failed-acquisition",
		Run: func(r *mc.Result, e *mc.Env) {
			mc.Explore(r, mc.Options{Job: "failed-acquisition", MaxDev: -1, SubShard: e.Shard, SubN: e.NShards, SubDepth: 2, Env: e}, failedRun)
		},
		Replay: func(ch []int) (*mc.Failure, []string) { return mc.ReplayOne(failedRun, ch) }})
	// goroutines of ONE member, hold time longer than the member's request timeout: A holds for 1.5 s (timeout 1 s) while B and
	// then C call Lock (on A's handle or on another handle of that member). Whatever B's wait does when the timeout passes
	// (the current code waits on; failing would be allowed too), neither B nor C may return nil before A unlocks, and
	// afterwards the waiters get the mutex one at a time.
	longHoldRun := func(c *mc.Ctx) {
		lock := fmt.Sprintf("/verif/c18/longhold-%d-%d", os.Getpid(), atomic.AddInt64(&c18Seq, 1))
		hA, err := impatient.Mutex(lock)
		if err != nil {
			c.Failf("harness:mutex-handle", "%v", err)
		}
		hOther, _ := impatient.Mutex(lock)
		pickH := func(tag string) Mutex {
			if c.Choose(2, tag) == 1 {
				return hOther
			}
			return hA
		}
		hB, hC := pickH("B-uses-another-handle"), pickH("C-uses-another-handle")
		if !c.Mine() {
			return
		}
		if err := hA.Lock(); err != nil {
			c.Failf("mutex:lock-returned-error:long-hold", "A: %v", err)
		}
		var holding int32 = 1
		type ret struct {
			who string
			err error
		}
		rets := make(chan ret, 2)
		call := func(who string, h Mutex) {
			go func() {
				err := h.Lock()
				if err == nil {
					if n := atomic.AddInt32(&holding, 1); n > 1 {
						rets <- ret{who + "!two-holders", nil}
						return
					}
				}
				rets <- ret{who, err}
			}()
		}
		pending := 0
		settle := func(d time.Duration, while string) {
			deadline := time.After(d)
			for {
				select {
				case r := <-rets:
					pending--
					if r.err == nil {
						c.Failf("mutex:two-holders:long-hold-one-member", "%s: Lock of goroutine %s returned nil while goroutine A of the same member holds the mutex (A holds longer than the 1 s request timeout)", while, r.who)
					}
				case <-deadline:
					return
				}
			}
		}
		call("B", hB)
		pending++
		settle(1500*time.Millisecond, "B waits past the request timeout")
		call("C", hC)
		pending++
		settle(500*time.Millisecond, "C called after B's wait passed the timeout")
		atomic.AddInt32(&holding, -1)
		if err := hA.Unlock(); err != nil {
			c.Failf("mutex:unlock-error:long-hold", "%v", err)
		}
		for pending > 0 {
			select {
			case r := <-rets:
				pending--
				if strings.HasSuffix(r.who, "!two-holders") {
					c.Failf("mutex:two-holders:long-hold-one-member", "after A's Unlock the waiters B and C held the mutex at the same time")
				}
				if r.err == nil {
					atomic.AddInt32(&holding, -1)
					h := hB
					if r.who == "C" {
						h = hC
					}
					if err := h.Unlock(); err != nil {
						c.Failf("mutex:unlock-error:long-hold", "%s: %v", r.who, err)
					}
				}
			case <-time.After(20 * time.Second):
				c.Failf("mutex:waiter-never-served:long-hold-one-member", "a goroutine that called Lock while A held the mutex neither acquired it nor failed within 20 s of A's Unlock")
			}
		}
		c.Outcome(fmt.Sprintf("long-hold B-other=%v C-other=%v", hB == hOther, hC == hOther))
	}
	jobs = append(jobs, mc.Job{Name: "long-hold-one-member",
		Run: func(r *mc.Result, e *mc.Env) {
			mc.Explore(r, mc.Options{Job: "long-hold-one-member", MaxDev: -1, SubShard: e.Shard, SubN: e.NShards, SubDepth: 2, Env: e}, longHoldRun)
		},
		Replay: func(ch []int) (*mc.Failure, []string) { return mc.ReplayOne(longHoldRun, ch) }})
	// probe for the double grant of the two-handles-one-member configuration (TLC: invariant violated in config B1)
	jobs = append(jobs, mc.Job{Name: "probe/two-handles-one-member",
		Run: func(r *mc.Result, e *mc.Env) {
			if e.Shard != 0 {
				return
			}
			lock := fmt.Sprintf("/verif/c18/probe-%d", os.Getpid())
			h1, _ := primary.Mutex(lock)
			h2, _ := primary.Mutex(lock)
			check(h1.Lock())
			got := make(chan error, 1)
			go func() { got <- h2.Lock() }()
			double := false
			select {
			case err := <-got:
				double = err == nil
			case <-time.After(2 * time.Second):
			}
			r.Executions++
			r.Jobs++
			if double {
				r.Violations = append(r.Violations, mc.Violation{Failure: mc.Failure{Key: "mutex:two-handles-same-member",
					Msg: "two handles obtained from Cluster.Mutex for the same name in ONE member: the second Lock returned while the first handle still holds the lock (TLC finds the same in config B1: the etcd key is per session, the process-local lock per handle)"},
					Job: "probe/two-handles-one-member", Choices: []int{}, Repro: "probe"})
				h2.Unlock()
			}
			r.Outcomes[fmt.Sprintf("probe-double-grant=%v", double)]++
			h1.Unlock()
		},
		Replay: func(ch []int) (*mc.Failure, []string) { return nil, nil }})
	mc.RunJobsAllInfo("C18", jobs, map[string]interface{}{"tlc": tf.Configs})
}
