//go:build verif

//go:debug asynctimerchan=0

package api

// C18 part 1 — concurrent admin-API mutations over an ideal cluster lock: three requests run concurrently
// on the real handlers (createObject, updateObject, deleteObject, getObject, listObjects) over a fake cluster
// whose every KV operation and whose mutex are scheduler gates; every schedule up to the preemption bound.
// Oracle: linearisability against the sequential store model of DESIGN A.7 (statuses 201/200/409/400/404,
// X-Config-Version distinct and gap-free, final listing = model applied in version order).

import (
	stdctx "context"
	"fmt"
	"net/http/httptest"
	"sort"
	"strings"
	"testing"
	"testing/synctest"
	"time"

	"github.com/go-chi/chi/v5"

	"github.com/megaease/easegress/pkg/cluster"
	"github.com/megaease/easegress/pkg/cluster/clustertest"
	"github.com/megaease/easegress/pkg/logger"
	"github.com/megaease/easegress/pkg/supervisor"
	"github.com/megaease/easegress/pkg/zzverif/mc"
	"github.com/megaease/easegress/pkg/zzverif/vrt"
)

type c18Spec struct {
	V int `yaml:"v"`
}
type c18K1 struct{}
type c18K2 struct{}

func (*c18K1) Category() supervisor.ObjectCategory         { return supervisor.CategoryBusinessController }
func (*c18K1) Kind() string                                { return "VK1" }
func (*c18K1) DefaultSpec() interface{}                    { return &c18Spec{} }
func (*c18K1) Status() *supervisor.Status                  { return &supervisor.Status{} }
func (*c18K1) Close()                                      {}
func (*c18K1) Init(*supervisor.Spec)                       {}
func (*c18K1) Inherit(*supervisor.Spec, supervisor.Object) {}
func (*c18K2) Category() supervisor.ObjectCategory         { return supervisor.CategoryBusinessController }
func (*c18K2) Kind() string                                { return "VK2" }
func (*c18K2) DefaultSpec() interface{}                    { return &c18Spec{} }
func (*c18K2) Status() *supervisor.Status                  { return &supervisor.Status{} }
func (*c18K2) Close()                                      {}
func (*c18K2) Init(*supervisor.Spec)                       {}
func (*c18K2) Inherit(*supervisor.Spec, supervisor.Object) {}

func init() {
	logger.InitNop()
	supervisor.Register(&c18K1{})
	supervisor.Register(&c18K2{})
}

// ---- fake cluster: in-memory KV, every operation is a gate; an ideal mutex ----

type c18Mutex struct{ held bool }

func (m *c18Mutex) Lock() error {
	vrt.Gate(vrt.Op{Kind: "cluster-lock", Obj: m, Enabled: func() bool { return !m.held }})
	if m.held {
		panic("verif: ideal lock granted twice")
	}
	m.held = true
	return nil
}

func (m *c18Mutex) Unlock() error {
	m.held = false
	return nil
}

func c18Cluster(kv map[string]string, mu *c18Mutex) cluster.Cluster {
	layout := &cluster.Layout{}
	return &clustertest.MockedCluster{
		MockedLayout: func() *cluster.Layout { return layout },
		MockedMutex:  func(string) (cluster.Mutex, error) { return mu, nil },
		MockedGet: func(k string) (*string, error) {
			vrt.Yield("kv-get")
			if v, ok := kv[k]; ok {
				return &v, nil
			}
			return nil, nil
		},
		MockedGetPrefix: func(p string) (map[string]string, error) {
			vrt.Yield("kv-getprefix")
			out := map[string]string{}
			for k, v := range kv {
				if strings.HasPrefix(k, p) {
					out[k] = v
				}
			}
			return out, nil
		},
		MockedPut:    func(k, v string) error { vrt.Yield("kv-put"); kv[k] = v; return nil },
		MockedDelete: func(k string) error { vrt.Yield("kv-delete"); delete(kv, k); return nil },
	}
}

// ---- requests ----

type c18Req struct {
	op, name, kind string
	v              int
}

func (r c18Req) String() string { return fmt.Sprintf("%s(%s,%s,v%d)", r.op, r.name, r.kind, r.v) }

var c18Menu = []c18Req{
	{"create", "a", "VK1", 1}, {"create", "a", "VK1", 2}, {"update", "a", "VK1", 3}, {"update", "a", "VK2", 4},
	{"delete", "a", "", 0}, {"create", "b", "VK1", 5}, {"get", "a", "", 0}, {"list", "", "", 0},
	{"update", "a", "VK1", 0}, // the configuration "a" has when it exists initially: an update that changes nothing is still a mutation
}

type c18Obs struct {
	status    int
	version   string
	body      string
	call, ret int
}

func c18Do(s *Server, q c18Req) (int, string, string) {
	body := ""
	if q.kind != "" {
		body = fmt.Sprintf("name: %s\nkind: %s\nv: %d\n", q.name, q.kind, q.v)
	}
	method := map[string]string{"create": "POST", "update": "PUT", "delete": "DELETE", "get": "GET", "list": "GET"}[q.op]
	r := httptest.NewRequest(method, "/apis/v1/objects", strings.NewReader(body))
	if q.op != "create" && q.op != "list" {
		rctx := chi.NewRouteContext()
		rctx.URLParams.Add("name", q.name)
		r = r.WithContext(stdctx.WithValue(r.Context(), chi.RouteCtxKey, rctx))
	}
	w := httptest.NewRecorder()
	switch q.op {
	case "create":
		s.createObject(w, r)
	case "update":
		s.updateObject(w, r)
	case "delete":
		s.deleteObject(w, r)
	case "get":
		s.getObject(w, r)
	case "list":
		s.listObjects(w, r)
	}
	return w.Code, w.Header().Get(ConfigVersionKey), w.Body.String()
}

// ---- sequential reference model (A.7) ----

type c18Model struct {
	objs map[string][2]string // name -> (kind, v)
	ver  int
}

func (m *c18Model) clone() *c18Model {
	n := &c18Model{objs: map[string][2]string{}, ver: m.ver}
	for k, v := range m.objs {
		n.objs[k] = v
	}
	return n
}

// apply returns (status, version-or-"", fingerprint of a read)
func (m *c18Model) apply(q c18Req) (int, string, string) {
	switch q.op {
	case "create":
		if _, ok := m.objs[q.name]; ok {
			return 409, "", ""
		}
		m.objs[q.name] = [2]string{q.kind, fmt.Sprint(q.v)}
		m.ver++
		return 201, fmt.Sprint(m.ver), ""
	case "update":
		o, ok := m.objs[q.name]
		if !ok {
			return 404, "", ""
		}
		if o[0] != q.kind {
			return 400, "", ""
		}
		m.objs[q.name] = [2]string{q.kind, fmt.Sprint(q.v)}
		m.ver++
		return 200, fmt.Sprint(m.ver), ""
	case "delete":
		if _, ok := m.objs[q.name]; !ok {
			return 404, "", ""
		}
		delete(m.objs, q.name)
		m.ver++
		return 200, fmt.Sprint(m.ver), ""
	case "get":
		o, ok := m.objs[q.name]
		if !ok {
			return 404, "", ""
		}
		return 200, "", o[0] + "/v" + o[1]
	case "list":
		return 200, "", m.fingerprint()
	}
	panic("unreachable")
}

func (m *c18Model) fingerprint() string {
	var l []string
	for n, o := range m.objs {
		l = append(l, n+"="+o[0]+"/v"+o[1])
	}
	sort.Strings(l)
	return strings.Join(l, ",")
}

// readFingerprint extracts (kind, v) of the objects from a YAML answer.
func c18ReadFP(op, body string) string {
	if op == "get" {
		k, v := "", ""
		for _, l := range strings.Split(body, "\n") {
			if strings.HasPrefix(l, "kind: ") {
				k = strings.TrimPrefix(l, "kind: ")
			}
			if strings.HasPrefix(l, "v: ") {
				v = strings.TrimPrefix(l, "v: ")
			}
		}
		return k + "/v" + v
	}
	var l []string
	var name, k, v string
	flush := func() {
		if name != "" {
			l = append(l, name+"="+k+"/v"+v)
		}
		name, k, v = "", "", ""
	}
	for _, ln := range strings.Split(body, "\n") {
		if strings.HasPrefix(ln, "- ") {
			flush()
			ln = "  " + ln[2:]
		}
		t := strings.TrimSpace(ln)
		switch {
		case strings.HasPrefix(t, "name: "):
			name = strings.TrimPrefix(t, "name: ")
		case strings.HasPrefix(t, "kind: "):
			k = strings.TrimPrefix(t, "kind: ")
		case strings.HasPrefix(t, "v: "):
			v = strings.TrimPrefix(t, "v: ")
		}
	}
	flush()
	sort.Strings(l)
	return strings.Join(l, ",")
}

func TestVerifC18api(t *testing.T) {
	synctest.Test(t, func(t *testing.T) {
		vrt.SetMode(vrt.ModeFree)
		env := mc.GetEnv()
		maxDev := 2
		if env.Thorough() {
			maxDev = 3
		}
		super := supervisor.NewDefaultMock()
		var jobs []mc.Job
		n := len(c18Menu)
		for i := 0; i < n; i++ {
			for j := i + 1; j < n; j++ {
				for k := j + 1; k < n; k++ {
					trio := []c18Req{c18Menu[i], c18Menu[j], c18Menu[k]}
					run := func(c *mc.Ctx) {
						kv := map[string]string{}
						layout := &cluster.Layout{}
						init := &c18Model{objs: map[string][2]string{}}
						if c.Choose(2, "a-exists-initially") == 1 {
							kv[layout.ConfigObjectKey("a")] = "name: a\nkind: VK1\nv: 0\n"
							kv[layout.ConfigVersion()] = "7"
							init.objs["a"] = [2]string{"VK1", "0"}
							init.ver = 7
						}
						mu := &c18Mutex{}
						s := &Server{cluster: c18Cluster(kv, mu), super: super}
						// "against one or several members": a second member's API server works on the same store and the same
						// cluster mutex; one of the requests may be sent to it
						s2 := &Server{cluster: c18Cluster(kv, mu), super: super}
						onSecond := c.Choose(3, "request-sent-to-a-second-member") // 0 = none, 1 / 2 = that request
						obs := make([]c18Obs, 3)
						clock := 0
						sch := vrt.New(c)
						for a := 0; a < 3; a++ {
							a := a
							sch.Go(fmt.Sprintf("req%d:%s", a, trio[a].op), func() {
								clock++
								obs[a].call = clock
								srv := s
								if onSecond == a && a > 0 {
									srv = s2
								}
								obs[a].status, obs[a].version, obs[a].body = c18Do(srv, trio[a])
								clock++
								obs[a].ret = clock
							})
						}
						if msg := sch.Run(); msg != "" {
							c.Failf("scheduler:"+msg[:8], "%s\n%s", msg, sch.TraceString())
						}
						c.Note("requests %v schedule: %s", trio, sch.TraceString())
						// final store as the real handlers left it
						final := &c18Model{objs: map[string][2]string{}}
						for key, v := range kv {
							if strings.HasPrefix(key, layout.ConfigObjectPrefix()) {
								fp := c18ReadFP("get", v)
								parts := strings.SplitN(fp, "/v", 2)
								final.objs[strings.TrimPrefix(key, layout.ConfigObjectPrefix())] = [2]string{parts[0], parts[1]}
							}
						}
						finalVer := kv[layout.ConfigVersion()]
						// some order consistent with call/return order must explain everything
						ok := false
						perm := [][]int{{0, 1, 2}, {0, 2, 1}, {1, 0, 2}, {1, 2, 0}, {2, 0, 1}, {2, 1, 0}}
						for _, p := range perm {
							legal := true
							for x := 0; x < 3 && legal; x++ {
								for y := x + 1; y < 3; y++ {
									if obs[p[y]].ret < obs[p[x]].call {
										legal = false
									}
								}
							}
							if !legal {
								continue
							}
							m := init.clone()
							good := true
							for _, a := range p {
								st, ver, fp := m.apply(trio[a])
								if st != obs[a].status || ver != obs[a].version {
									good = false
									break
								}
								if (trio[a].op == "get" || trio[a].op == "list") && st == 200 && c18ReadFP(trio[a].op, obs[a].body) != fp {
									good = false
									break
								}
							}
							want := fmt.Sprint(m.ver)
							if m.ver == 0 {
								want = ""
							}
							if good && m.fingerprint() == final.fingerprint() && want == finalVer {
								ok = true
								break
							}
						}
						if !ok {
							var d []string
							for a := range trio {
								d = append(d, fmt.Sprintf("%s -> %d version %q [call@%d ret@%d]", trio[a], obs[a].status, obs[a].version, obs[a].call, obs[a].ret))
							}
							c.Failf("not-linearizable:"+trio[0].op+"+"+trio[1].op+"+"+trio[2].op, "no sequential order of the requests explains the answers and the final store\n%s\nfinal store {%s} version %q, initial {%s} version %d\nschedule: %s",
								strings.Join(d, "\n"), final.fingerprint(), finalVer, init.fingerprint(), init.ver, sch.TraceString())
						}
						c.Outcome(fmt.Sprintf("%d/%d/%d", obs[0].status, obs[1].status, obs[2].status))
					}
					jobs = append(jobs, mc.ExploreJob(mc.Options{Job: fmt.Sprintf("trio/%s+%s+%s", c18Menu[i], c18Menu[j], c18Menu[k]), MaxDev: maxDev}, run))
				}
			}
		}
		_ = time.Second
		mc.RunJobs("C18", jobs)
	})
}
