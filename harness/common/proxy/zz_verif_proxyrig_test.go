//go:build verif

package proxy

// Shared rig for the proxy harnesses (C04, C10, C08 proxy part): builds a real Proxy filter
// from YAML through filters.NewSpec (validation) and stubs fnSendRequest.

import (
	"fmt"
	"net/http"

	"gopkg.in/yaml.v2"

	"github.com/megaease/easegress/pkg/context"
	"github.com/megaease/easegress/pkg/filters"
	"github.com/megaease/easegress/pkg/logger"
	"github.com/megaease/easegress/pkg/protocols/httpprot"
	"github.com/megaease/easegress/pkg/resilience"
	"github.com/megaease/easegress/pkg/tracing"
)

func init() { logger.InitNop() }

var vSpecErr = map[string]error{}

// vNewProxy returns (nil, err) when validation rejects the spec.
func vNewProxy(y string, policies []string) (p *Proxy, err error) {
	// a fresh spec object per instance (instances keep pointers into it), but validation
	// (the expensive part) only once per distinct YAML
	if e, ok := vSpecErr[y]; ok && e != nil {
		return nil, e
	}
	var raw map[string]interface{}
	if err := yaml.Unmarshal([]byte(y), &raw); err != nil {
		return nil, fmt.Errorf("harness yaml: %v", err)
	}
	var spec filters.Spec
	if _, ok := vSpecErr[y]; !ok {
		spec, err = filters.NewSpec(nil, "pipeline", raw)
		if len(vSpecErr) > 5000 {
			vSpecErr = map[string]error{}
		}
		vSpecErr[y] = err
		if err != nil {
			return nil, err
		}
	} else {
		spec = kind.DefaultSpec()
		if err := yaml.Unmarshal([]byte(y), spec); err != nil {
			return nil, err
		}
	}
	p = kind.CreateInstance(spec).(*Proxy)
	p.Init()
	pm := map[string]resilience.Policy{}
	for _, py := range policies {
		var praw map[string]interface{}
		if err := yaml.Unmarshal([]byte(py), &praw); err != nil {
			return nil, fmt.Errorf("harness yaml: %v", err)
		}
		pol, err := resilience.NewPolicy(praw)
		if err != nil {
			return nil, err
		}
		pm[pol.Name()] = pol
	}
	p.InjectResiliencePolicy(pm)
	return p, nil
}

type vProxyObs struct {
	result string
	status int
}

// vHandle sends one request through the filter.
func vHandle(p *Proxy, stdr *http.Request) vProxyObs {
	req, _ := httpprot.NewRequest(stdr)
	req.FetchPayload(1 << 20)
	ctx := context.New(tracing.NoopSpan)
	ctx.SetInputRequest(req)
	res := p.Handle(ctx)
	o := vProxyObs{result: res}
	if r := ctx.GetOutputResponse(); r != nil {
		o.status = r.(*httpprot.Response).StatusCode()
	}
	return o
}
