//go:build verif

package httpserver

// C05 part 2 — IP filters at server / rule / path level x cache sizes x every request
// sequence: denied => 4xx (403 when the route exists) and no handler; else == filterless twin.

import (
	"fmt"
	"testing"

	"github.com/megaease/easegress/pkg/zzverif/mc"
)

const (
	c05A = "1.2.3.4"
	c05B = "5.6.7.8"
)

type c05Level struct {
	name, yaml string
	denies     func(ip string) bool
}

var c05Levels = []c05Level{
	{"none", "", func(string) bool { return false }},
	{"allowA-default-block", "{blockByDefault: true, allowIPs: [1.2.3.4]}", func(ip string) bool { return ip != c05A }},
	{"blockB", "{blockIPs: [5.6.7.0/24]}", func(ip string) bool { return ip == c05B }},
	{"blockByDefault", "{blockByDefault: true}", func(ip string) bool { return true }},
}

type c05Req struct {
	q      vReq
	client string
}

func c05Requests() []c05Req {
	var rs []c05Req
	for _, host := range []string{"a.com", "b.com"} {
		for _, cl := range []string{c05A, c05B} {
			for _, tgt := range []struct{ m, p string }{{"GET", "/r"}, {"GET", "/nope"}, {"POST", "/r"}} {
				for src := 0; src < 3; src++ {
					q := vReq{Host: host, Method: tgt.m, Path: tgt.p, Remote: "9.9.9.9"}
					switch src {
					case 0:
						q.Remote = cl
					case 1:
						q.Hdr = [][2]string{{"X-Forwarded-For", "10.0.0.1, " + cl + ", 8.8.8.8"}}
					case 2:
						q.Hdr = [][2]string{{"X-Real-Ip", cl}}
					}
					rs = append(rs, c05Req{q, cl})
				}
			}
		}
	}
	return rs
}

func TestVerifC05mux(t *testing.T) {
	env := mc.GetEnv()
	L := 2
	if env.Thorough() {
		L = 3
	}
	reqs := c05Requests()
	var jobs []mc.Job
	for si, S := range c05Levels {
		for ri, R := range c05Levels {
			for pi, P := range c05Levels {
				for _, cache := range []int{0, 1, 16} {
					S, R, P, cache := S, R, P, cache
					name := fmt.Sprintf("S%d-R%d-P%d-cache%d", si, ri, pi, cache)
					mkRules := func(withIP bool) ([]vRule, string) {
						e0 := vEntry{Path: "/r", Methods: []string{"GET"}, Backend: "p1"}
						r0 := vRule{Host: "a.com", Entries: []vEntry{e0}}
						r1 := vRule{Host: "b.com", Entries: []vEntry{{Path: "/r", Methods: []string{"GET"}, Backend: "p2"}}}
						extra := ""
						if withIP {
							r0.Entries[0].IPFilter = P.yaml
							r0.IPFilter = R.yaml
							if S.yaml != "" {
								extra = "ipFilter: " + S.yaml + "\n"
							}
						}
						if cache > 0 {
							extra += fmt.Sprintf("cacheSize: %d\n", cache)
						}
						return []vRule{r0, r1}, extra
					}
					var rig, twin *vRig
					var spec string
					run := func(c *mc.Ctx) {
						if rig == nil {
							rules, extra := mkRules(true)
							spec = vServerYAML(rules, extra)
							var err error
							if rig, err = newVRig(spec); err != nil {
								c.Failf("spec-rejected", "%v\n%s", err, spec)
							}
							rules, extra = mkRules(false)
							if twin, err = newVRig(vServerYAML(rules, extra)); err != nil {
								c.Failf("spec-rejected", "%v", err)
							}
						}
						rig.m.reload(rig.m.inst.Load().(*muxInstance).superSpec, rig)
						twin.m.reload(twin.m.inst.Load().(*muxInstance).superSpec, twin)
						for i := 0; i < L; i++ {
							r := reqs[c.Choose(len(reqs), "req")]
							c.Note("%s (client %s)", r.q, r.client)
							got := rig.do(r.q)
							tw := twin.do(r.q)
							denied := S.denies(r.client)
							if r.q.Host == "a.com" {
								denied = denied || R.denies(r.client)
								if tw.Backend != "" {
									denied = denied || P.denies(r.client)
								}
							}
							if denied {
								c.AddOutcome(fmt.Sprintf("denied/twin=%d", tw.Status))
								if got.Backend != "" {
									c.Failf("denied-client-reached-backend", "step %d %s: client %s is denied but handler %q was invoked (status %d)\nspec:\n%s", i+1, r.q, r.client, got.Backend, got.Status, spec)
								}
								if got.Status < 400 || got.Status > 499 || (tw.Backend != "" && got.Status != 403) {
									c.Failf(fmt.Sprintf("denied-client-status=%d,route-exists=%v", got.Status, tw.Backend != ""), "step %d %s: client %s is denied, got status %d (filterless twin: %s)\nspec:\n%s", i+1, r.q, r.client, got.Status, tw, spec)
								}
							} else {
								c.AddOutcome(fmt.Sprintf("ok/twin=%d", tw.Status))
								if got.Status != tw.Status || got.Backend != tw.Backend || got.Path != tw.Path {
									c.Failf(fmt.Sprintf("allowed-client-differs:want=%d,got=%d", tw.Status, got.Status), "step %d %s: client %s is not denied; with filters %s, without %s\nspec:\n%s", i+1, r.q, r.client, got, tw, spec)
								}
							}
						}
					}
					jobs = append(jobs, mc.ExploreJob(mc.Options{Job: name, MaxDev: -1}, run))
				}
			}
		}
	}
	// sibling family: several rules and several paths per rule carry DIFFERENT filters under one server filter; each
	// request must be judged by the chain server -> its rule -> its path, never by a sibling's filter
	var sreqs []c05Req
	for _, host := range []string{"a.com", "b.com"} {
		for _, p := range []string{"/r", "/s"} {
			for _, cl := range []string{c05A, c05B} {
				sreqs = append(sreqs, c05Req{vReq{Host: host, Method: "GET", Path: p, Remote: cl}, cl})
			}
		}
	}
	for si, S := range c05Levels {
		for p1, P1 := range c05Levels {
			for p2, P2 := range c05Levels {
				for r1, R1 := range c05Levels[:3] {
					for r2, R2 := range c05Levels[:2] {
						for _, cache := range []int{0, 16} {
							S, P1, P2, R1, R2, cache := S, P1, P2, R1, R2, cache
							name := fmt.Sprintf("sib-S%d-Ra%d(r:P%d,s:P%d)-Rb%d-cache%d", si, r1, p1, p2, r2, cache)
							mk := func(withIP bool) string {
								ra := vRule{Host: "a.com", Entries: []vEntry{{Path: "/r", Backend: "p1"}, {Path: "/s", Backend: "p2"}}}
								rb := vRule{Host: "b.com", Entries: []vEntry{{Path: "/r", Backend: "p3"}}}
								extra := ""
								if withIP {
									ra.IPFilter, rb.IPFilter = R1.yaml, R2.yaml
									ra.Entries[0].IPFilter, ra.Entries[1].IPFilter = P1.yaml, P2.yaml
									if S.yaml != "" {
										extra = "ipFilter: " + S.yaml + "\n"
									}
								}
								if cache > 0 {
									extra += fmt.Sprintf("cacheSize: %d\n", cache)
								}
								return vServerYAML([]vRule{ra, rb}, extra)
							}
							var rig, twin *vRig
							var spec string
							run := func(c *mc.Ctx) {
								if rig == nil {
									spec = mk(true)
									var err error
									if rig, err = newVRig(spec); err != nil {
										c.Failf("spec-rejected", "%v\n%s", err, spec)
									}
									if twin, err = newVRig(mk(false)); err != nil {
										c.Failf("spec-rejected", "%v", err)
									}
								}
								rig.m.reload(rig.m.inst.Load().(*muxInstance).superSpec, rig)
								for i := 0; i < 2; i++ {
									r := sreqs[c.Choose(len(sreqs), "req")]
									c.Note("%s (client %s)", r.q, r.client)
									got, tw := rig.do(r.q), twin.do(r.q)
									denied := S.denies(r.client)
									if r.q.Host == "a.com" {
										denied = denied || R1.denies(r.client)
										if r.q.Path == "/r" {
											denied = denied || P1.denies(r.client)
										} else {
											denied = denied || P2.denies(r.client)
										}
									} else {
										denied = denied || R2.denies(r.client)
									}
									if denied {
										c.AddOutcome(fmt.Sprintf("denied/twin=%d", tw.Status))
										if got.Backend != "" {
											c.Failf("denied-client-reached-backend:siblings", "step %d %s: client %s is denied but handler %q was invoked (status %d)\nspec:\n%s", i+1, r.q, r.client, got.Backend, got.Status, spec)
										}
										if got.Status < 400 || got.Status > 499 || (tw.Backend != "" && got.Status != 403) {
											c.Failf(fmt.Sprintf("denied-client-status=%d,route-exists=%v:siblings", got.Status, tw.Backend != ""), "step %d %s: client %s is denied, got status %d (filterless twin: %s)\nspec:\n%s", i+1, r.q, r.client, got.Status, tw, spec)
										}
									} else {
										c.AddOutcome(fmt.Sprintf("ok/twin=%d", tw.Status))
										if got.Status != tw.Status || got.Backend != tw.Backend || got.Path != tw.Path {
											c.Failf(fmt.Sprintf("allowed-client-differs:want=%d,got=%d:siblings", tw.Status, got.Status), "step %d %s: client %s is not denied; with filters %s, without %s\nspec:\n%s", i+1, r.q, r.client, got, tw, spec)
										}
									}
								}
							}
							jobs = append(jobs, mc.ExploreJob(mc.Options{Job: name, MaxDev: -1}, run))
						}
					}
				}
			}
		}
	}
	mc.RunJobs("C05", jobs)
}
