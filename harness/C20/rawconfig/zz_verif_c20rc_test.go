//go:build verif

//go:debug asynctimerchan=0

package rawconfigtrafficcontroller

// C20, traffic objects unit — the same snapshot histories as the supervisor unit, but for objects of category
// Pipeline, which take the other road: ObjectRegistry.applyConfig -> watcher (category filter) ->
// RawConfigTrafficController.handleEvent -> TrafficController.Create/Update/DeletePipeline -> the real Pipeline
// object.  The lifecycle of the real Pipeline is observed through a recording filter kind (Pipeline.Init ->
// filter Init; Pipeline.Inherit -> filter Inherit(old) + Close(old); Pipeline.Close -> filter Close).  After every
// snapshot the handler RawConfigTrafficController.GetPipeline returns must belong to the generation of the latest
// snapshot, and exist iff the name is in it.

import (
	"fmt"
	"os"
	"sort"
	"strings"
	"sync"
	"testing"
	"testing/synctest"
	"time"

	"github.com/megaease/easegress/pkg/cluster"
	"github.com/megaease/easegress/pkg/cluster/clustertest"
	"github.com/megaease/easegress/pkg/context"
	"github.com/megaease/easegress/pkg/filters"
	"github.com/megaease/easegress/pkg/logger"
	"github.com/megaease/easegress/pkg/option"
	"github.com/megaease/easegress/pkg/protocols/httpprot"
	"github.com/megaease/easegress/pkg/supervisor"
	"github.com/megaease/easegress/pkg/tracing"
	"github.com/megaease/easegress/pkg/zzverif/mc"
)

var (
	rcCalls  []string // "Init p1.v1#3", "Inherit p1.v2#5<-p1.v1#3", "Close p1.v1#3", "Handle p1.v2#5"
	rcSerial int
)

type rcSpec struct {
	filters.BaseSpec `yaml:",inline"`
	V                int `yaml:"v"`
}

type rcFilter struct {
	spec *rcSpec
	tag  string
}

var rcKind = &filters.Kind{
	Name:           "VRecFilter",
	Description:    "verification recording filter",
	Results:        []string{},
	DefaultSpec:    func() filters.Spec { return &rcSpec{} },
	CreateInstance: func(spec filters.Spec) filters.Filter { return &rcFilter{spec: spec.(*rcSpec)} },
}

func (f *rcFilter) mkTag() {
	rcSerial++
	f.tag = fmt.Sprintf("%s.v%d#%d", f.spec.Pipeline(), f.spec.V, rcSerial)
}
func (f *rcFilter) Name() string        { return f.spec.Name() }
func (f *rcFilter) Kind() *filters.Kind { return rcKind }
func (f *rcFilter) Spec() filters.Spec  { return f.spec }
func (f *rcFilter) Status() interface{} { return nil }
func (f *rcFilter) Init()               { f.mkTag(); rcCalls = append(rcCalls, "Init "+f.tag) }
func (f *rcFilter) Inherit(prev filters.Filter) {
	f.mkTag()
	rcCalls = append(rcCalls, "Inherit "+f.tag+"<-"+prev.(*rcFilter).tag)
}
func (f *rcFilter) Close() { rcCalls = append(rcCalls, "Close "+f.tag) }
func (f *rcFilter) Handle(ctx *context.Context) string {
	rcCalls = append(rcCalls, "Handle "+f.tag)
	return ""
}

func init() {
	logger.InitNop()
	filters.Register(rcKind)
}

func TestVerifC20rc(t *testing.T) {
	home, _ := os.MkdirTemp("", "verif-c20rc-")
	mc.OnExit = append(mc.OnExit, func() { os.RemoveAll(home) })
	synctest.Test(t, func(t *testing.T) {
		env := mc.GetEnv()
		L := 3
		if env.Thorough() {
			L = 4
		}
		names := []string{"p1", "p2"}
		layout := &cluster.Layout{}
		prefix := layout.ConfigObjectPrefix()
		run := func(c *mc.Ctx) {
			rcCalls, rcSerial = nil, 0
			syncCh := make(chan map[string]string, 10)
			cls := &clustertest.MockedCluster{
				MockedLayout:    func() *cluster.Layout { return layout },
				MockedGetPrefix: func(string) (map[string]string, error) { return map[string]string{}, nil },
				MockedSyncer: func(time.Duration) (cluster.Syncer, error) {
					return &clustertest.MockedSyncer{MockedSyncPrefix: func(string) (<-chan map[string]string, error) { return syncCh, nil }}, nil
				},
			}
			super := supervisor.MustNew(&option.Options{AbsHomeDir: home}, cls)
			defer func() {
				wg := &sync.WaitGroup{}
				wg.Add(1)
				super.Close(wg)
				synctest.Wait()
			}()
			synctest.Wait()
			ent, ok := super.GetSystemController(Kind)
			if !ok {
				c.Failf("harness:no-rawconfigtrafficcontroller", "system controller %s missing", Kind)
			}
			rctc := ent.Instance().(*RawConfigTrafficController)
			live := map[string]string{} // name -> tag of the live generation
			liveV := map[string]int{}
			checked := 0
			for step := 0; step < L; step++ {
				snap := map[string]int{}
				cfg := map[string]string{}
				var desc []string
				for _, n := range names {
					v := c.Choose(3, "version-"+n) // 0 = absent
					desc = append(desc, fmt.Sprintf("%s=v%d", n, v))
					if v > 0 {
						snap[n] = v
						cfg[prefix+n] = fmt.Sprintf("name: %s\nkind: Pipeline\nfilters:\n- name: f\n  kind: VRecFilter\n  v: %d\n", n, v)
					}
				}
				c.Note("snapshot %d: %s", step+1, strings.Join(desc, " "))
				syncCh <- cfg
				synctest.Wait()
				calls := rcCalls[checked:]
				checked = len(rcCalls)
				for _, n := range names {
					var have []string
					newTag := ""
					for _, cl := range calls {
						f := strings.Fields(cl)
						if !strings.HasPrefix(f[1], n+".") {
							continue
						}
						have = append(have, cl)
						if f[0] == "Init" {
							newTag = f[1]
						}
						if f[0] == "Inherit" {
							newTag = strings.SplitN(f[1], "<-", 2)[0]
						}
					}
					prevTag, had := live[n]
					v, has := snap[n]
					var want []string
					trans := "unchanged"
					switch {
					case !had && !has:
					case !had:
						trans = "appear"
						want = []string{"Init " + newTag}
					case !has:
						trans = "disappear"
						want = []string{"Close " + prevTag}
					case liveV[n] == v:
					default:
						trans = "changed"
						want = []string{"Inherit " + newTag + "<-" + prevTag, "Close " + prevTag}
					}
					if strings.Join(have, ", ") != strings.Join(want, ", ") {
						c.Failf("traffic-object-lifecycle:"+trans, "snapshot %d (%s), pipeline %s: filter callbacks [%s], expected [%s]", step+1, strings.Join(desc, " "), n, strings.Join(have, ", "), strings.Join(want, ", "))
					}
					if has {
						if newTag != "" {
							live[n] = newTag
						}
						liveV[n] = v
					} else {
						delete(live, n)
						delete(liveV, n)
					}
					// the handler the traffic controller hands out belongs to the latest snapshot
					h, ok := rctc.GetPipeline(n)
					if ok != has {
						c.Failf("traffic-object-live-set-differs", "snapshot %d (%s): GetPipeline(%s) found=%v, the snapshot has it=%v", step+1, strings.Join(desc, " "), n, ok, has)
					}
					if ok {
						before := len(rcCalls)
						ctx := context.New(tracing.NoopSpan)
						req, _ := httpprot.NewRequest(nil)
						ctx.SetInputRequest(req)
						h.Handle(ctx)
						got := strings.Join(rcCalls[before:], ", ")
						checked = len(rcCalls)
						if got != "Handle "+live[n] {
							c.Failf("traffic-object-stale-generation", "snapshot %d (%s): a request on pipeline %s ran [%s], the live generation is %s", step+1, strings.Join(desc, " "), n, got, live[n])
						}
					}
				}
			}
			var ks []string
			for _, cl := range rcCalls {
				ks = append(ks, strings.Fields(cl)[0])
			}
			sort.Strings(ks)
			c.Outcome(strings.Join(ks, ""))
		}
		job := mc.Job{Name: "traffic-object-snapshots",
			Run: func(r *mc.Result, env *mc.Env) {
				mc.Explore(r, mc.Options{Job: "traffic-object-snapshots", MaxDev: -1, SubShard: env.Shard, SubN: env.NShards, SubDepth: 3, Env: env}, run)
			},
			Replay: func(ch []int) (*mc.Failure, []string) { return mc.ReplayOne(run, ch) }}
		mc.RunJobsAll("C20", []mc.Job{job})
	})
}
