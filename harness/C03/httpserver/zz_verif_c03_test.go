//go:build verif

package httpserver

// C03 — the Proxy forwards requests and responses faithfully over real sockets: every single deviation and
// every pair (thorough: triple) of deviations from a base (request, backend answer, configuration) triple.

import (
	"bytes"
	"fmt"
	"strings"
	"sync"
	"testing"

	"github.com/megaease/easegress/pkg/zzverif/mc"
)

type c03Dim struct {
	name string
	alts []string // alts[0] is the base value
}

var c03Dims = []c03Dim{
	{"method", []string{"GET", "POST", "PUT", "DELETE", "HEAD", "PATCH", "OPTIONS"}},
	{"path", []string{"/p", "/p/q", "/a%20b", "/a%2Fb", "/a%3Fb", "/", "/p//q", "/p;v=1", "/p/../q", "/%E4%B8%AD"}},
	{"query", []string{"x=1", "x=1&x=2", "q=%26", "", "a=b+c&d=%2B", "k", "x=1;y=2"}},
	{"repeated-header", []string{"no", "yes"}},
	{"hop-keep-alive", []string{"no", "yes"}},
	{"hop-proxy-connection", []string{"no", "yes"}},
	{"hop-proxy-authenticate", []string{"no", "yes"}},
	{"hop-proxy-authorization", []string{"no", "yes"}},
	{"hop-te", []string{"no", "yes"}},
	{"hop-trailer", []string{"no", "yes"}},
	{"hop-upgrade", []string{"no", "yes"}},
	{"connection", []string{"close", "close, X-Foo", "X-Foo, X-Bar, close"}},
	{"connection-second-line", []string{"no", "X-Baz"}},
	{"accept-encoding", []string{"", "gzip"}},
	{"req-body", []string{"0", "1", "1024", "65536"}},
	{"req-chunked", []string{"no", "yes"}},
	{"req-gzip", []string{"no", "yes"}},
	{"status", []string{"200", "204", "301", "404", "500"}},
	{"resp-body", []string{"1", "0", "1023", "1024", "8192", "100000"}},
	{"resp-chunked", []string{"no", "yes"}},
	{"resp-gzip", []string{"no", "yes"}},
	{"pipeline", []string{"proxy", "reqadaptor-body", "reqadaptor-compress", "reqadaptor-decompress", "respadaptor-body", "respadaptor-compress", "respadaptor-decompress"}},
	{"server-url", []string{"ip", "hostname", "hostname+keepHost"}},
	{"compression", []string{"off", "minLength1024"}},
	{"mode", []string{"buffered", "stream", "buffered-limit2000"}},
}

type c03Case map[string]string

// c03Body: small bodies are a readable pattern; bodies of several flush units (32 KiB) are poorly compressible, so
// that the compressed stream also spans several reads and buffers
func c03Body(n int) []byte {
	if n < 32768 {
		return pattern(n)
	}
	b := make([]byte, n)
	x := uint32(2463534242)
	for i := range b {
		x ^= x << 13
		x ^= x >> 17
		x ^= x << 5
		b[i] = byte('a' + (x>>8)%26)
	}
	return b
}

func (c c03Case) nonDefault() string {
	var s []string
	for _, d := range c03Dims {
		if c[d.name] != d.alts[0] {
			s = append(s, d.name+"="+c[d.name])
		}
	}
	return strings.Join(s, ",")
}

func (c c03Case) tags(names ...string) string {
	var s []string
	for _, d := range c03Dims {
		for _, n := range names {
			if d.name == n && c[n] != d.alts[0] {
				s = append(s, n+"="+c[n])
			}
		}
	}
	if len(s) == 0 {
		return "base"
	}
	return strings.Join(s, ",")
}

var (
	c03Backend *lbBackend
	c03Fronts  = map[string]*lbFront{}
	c03Seq     int
	c03Mu      sync.Mutex
)

func c03Front(cs c03Case) (*lbFront, error) {
	key := cs["pipeline"] + "|" + cs["server-url"] + "|" + cs["compression"] + "|" + cs["mode"]
	if f, ok := c03Fronts[key]; ok {
		return f, nil
	}
	host := "127.0.0.1"
	if cs["server-url"] != "ip" {
		host = "localhost"
	}
	var p strings.Builder
	p.WriteString("name: pipe\nkind: Pipeline\nfilters:\n")
	proxy := fmt.Sprintf("- name: proxy\n  kind: Proxy\n  pools:\n  - servers:\n    - url: http://%s:%d\n", host, c03Backend.port())
	if cs["server-url"] == "hostname+keepHost" {
		proxy += "      keepHost: true\n"
	}
	if cs["mode"] == "stream" {
		proxy += "    serverMaxBodySize: -1\n"
	}
	if cs["mode"] == "buffered-limit2000" {
		proxy += "    serverMaxBodySize: 2000\n"
	}
	if cs["compression"] != "off" {
		proxy += "  compression:\n    minLength: 1024\n"
	}
	switch cs["pipeline"] {
	case "reqadaptor-body":
		p.WriteString("- name: ra\n  kind: RequestAdaptor\n  body: REQUEST-BODY-FROM-ADAPTOR\n")
	case "reqadaptor-compress":
		p.WriteString("- name: ra\n  kind: RequestAdaptor\n  compress: gzip\n")
	case "reqadaptor-decompress":
		p.WriteString("- name: ra\n  kind: RequestAdaptor\n  decompress: gzip\n")
	}
	p.WriteString(proxy)
	switch cs["pipeline"] {
	case "respadaptor-body":
		p.WriteString("- name: pa\n  kind: ResponseAdaptor\n  body: RESPONSE-BODY-FROM-ADAPTOR\n")
	case "respadaptor-compress":
		p.WriteString("- name: pa\n  kind: ResponseAdaptor\n  compress: gzip\n")
	case "respadaptor-decompress":
		p.WriteString("- name: pa\n  kind: ResponseAdaptor\n  decompress: gzip\n")
	}
	server := "kind: HTTPServer\nname: front\nport: 18080\nkeepAlive: true\nhttps: false\n"
	if cs["mode"] == "stream" {
		server += "clientMaxBodySize: -1\n"
	}
	server += "rules:\n- paths:\n  - pathPrefix: /\n    backend: pipe\n"
	f, err := newLBFront(server, p.String())
	if err != nil {
		return nil, err
	}
	c03Fronts[key] = f
	return f, nil
}

var c03Hop = map[string][2]string{
	"hop-keep-alive":          {"Keep-Alive", "timeout=5"},
	"hop-proxy-connection":    {"Proxy-Connection", "keep-alive"},
	"hop-proxy-authenticate":  {"Proxy-Authenticate", "Basic"},
	"hop-proxy-authorization": {"Proxy-Authorization", "Basic Zm9vOmJhcg=="},
	"hop-te":                  {"TE", "trailers"},
	"hop-trailer":             {"Trailer", "X-T"},
	"hop-upgrade":             {"Upgrade", "foo/2"},
}

func TestVerifC03(t *testing.T) {
	env := mc.GetEnv()
	maxDev := 4
	if env.Thorough() {
		maxDev = 5
	}
	c03Backend = newLBBackend()
	run := func(c *mc.Ctx) {
		cs := c03Case{}
		for _, d := range c03Dims {
			cs[d.name] = d.alts[c.ChooseDev(len(d.alts), d.name)]
		}
		if !c.Mine() {
			return // another worker runs this case
		}
		c.Note("deviations: %s", cs.nonDefault())
		front, err := c03Front(cs)
		if err != nil {
			c.Failf("config-rejected:"+cs.tags("pipeline", "server-url", "compression", "mode"), "%v", err)
		}
		c03Seq++
		id := fmt.Sprintf("c%d-%d", env.Shard, c03Seq)
		// ---- the client's request
		var n int
		fmt.Sscan(cs["req-body"], &n)
		reqLogical := c03Body(n)
		wire := reqLogical
		q := lbReq{method: cs["method"], host: "front.example", chunked: cs["req-chunked"] == "yes"}
		q.target = cs["path"]
		if cs["query"] != "" {
			q.target += "?" + cs["query"]
		}
		q.hdr = append(q.hdr, [2]string{"X-Verif-Case", id}, [2]string{"X-E2E", "end-to-end"}, [2]string{"Connection", cs["connection"]},
			[2]string{"X-Foo", "named-by-connection"}, [2]string{"X-Bar", "named-by-connection"})
		if cs["repeated-header"] == "yes" {
			q.hdr = append(q.hdr, [2]string{"X-Rep", "one"}, [2]string{"X-Rep", "two"})
		}
		q.hdr = append(q.hdr, [2]string{"X-Baz", "named-by-second-connection-line"})
		if cs["connection-second-line"] != "no" {
			q.hdr = append(q.hdr, [2]string{"Connection", "X-Baz"}) // Connection is a list field: it may come in several lines
		}
		for dim, kv := range c03Hop {
			if cs[dim] == "yes" {
				q.hdr = append(q.hdr, kv)
			}
		}
		if cs["accept-encoding"] != "" {
			q.hdr = append(q.hdr, [2]string{"Accept-Encoding", cs["accept-encoding"]})
		}
		if cs["req-gzip"] == "yes" && n > 0 {
			wire = gz(reqLogical)
			q.hdr = append(q.hdr, [2]string{"Content-Encoding", "gzip"})
		}
		q.body = wire
		// ---- the backend's answer
		var rn, status int
		fmt.Sscan(cs["resp-body"], &rn)
		fmt.Sscan(cs["status"], &status)
		respLogical := bytes.ToUpper(c03Body(rn))
		sc := lbScript{status: status, chunked: cs["resp-chunked"] == "yes", hdr: [][2]string{{"X-Resp", "v1"}, {"X-Resp", "v2"}, {"Content-Type", "text/plain"}}}
		sc.body = respLogical
		if cs["resp-gzip"] == "yes" && rn > 0 {
			sc.body = gz(respLogical)
			sc.hdr = append(sc.hdr, [2]string{"Content-Encoding", "gzip"})
		}
		noRespBody := status == 204 || status == 304 || cs["method"] == "HEAD"
		if status == 204 {
			sc.body, sc.chunked = nil, false
		}
		kase := &lbCase{script: sc}
		c03Backend.mu.Lock()
		c03Backend.cases[id] = kase
		c03Backend.mu.Unlock()
		defer func() {
			c03Backend.mu.Lock()
			delete(c03Backend.cases, id)
			c03Backend.mu.Unlock()
		}()
		resp := lbDo(front.l.Addr().String(), q)
		c03Backend.mu.Lock()
		seen := append([]lbSeen{}, kase.seen...)
		c03Backend.mu.Unlock()
		desc := fmt.Sprintf("deviations from the base case: [%s]\nrequest: %s %s body %d bytes\nclient got: status %d framing %s declared CL %d body %d bytes headers %v io error %v", cs.nonDefault(), q.method, q.target, len(q.body), resp.status, resp.framing, resp.declaredCL, len(resp.body), resp.hdr, resp.ioErr)
		respDims := []string{"pipeline", "compression", "mode", "resp-chunked", "resp-gzip", "resp-body", "accept-encoding", "status", "method"}
		reqDims := []string{"pipeline", "mode", "req-chunked", "req-gzip", "req-body", "method"}
		if resp.ioErr != nil {
			c.Failf("no-response:"+cs.tags(append(respDims, reqDims...)...), "%s", desc)
		}
		// ---- what the backend saw
		if len(seen) != 1 {
			c.Failf(fmt.Sprintf("backend-calls=%d:%s", len(seen), cs.tags(append(respDims, reqDims...)...)), "the backend was called %d times\n%s", len(seen), desc)
		}
		s := seen[0]
		if s.method != q.method {
			c.Failf("method-changed:"+cs.tags("method", "pipeline"), "backend saw method %s\n%s", s.method, desc)
		}
		if s.uri != q.target {
			c.Failf("path-or-query-changed:"+cs.tags("path", "query"), "backend saw request target %q, client sent %q\n%s", s.uri, q.target, desc)
		}
		wantReq := reqLogical
		if cs["pipeline"] == "reqadaptor-body" {
			wantReq = []byte("REQUEST-BODY-FROM-ADAPTOR")
		}
		gotReq, lerr := logical(s.body, s.hdr)
		if lerr != nil || !bytes.Equal(gotReq, wantReq) || s.bodyErr != nil {
			c.Failf("request-body-changed:"+cs.tags(reqDims...), "backend saw a body of %d bytes (logical %d, label %q, decode error %v, read error %v), expected logical content of %d bytes\n%s",
				len(s.body), len(gotReq), s.hdr.Get("Content-Encoding"), lerr, s.bodyErr, len(wantReq), desc)
		}
		if got := s.hdr["X-E2e"]; len(got) != 1 || got[0] != "end-to-end" {
			c.Failf("end-to-end-header-lost", "backend saw X-E2E = %v\n%s", got, desc)
		}
		if cs["repeated-header"] == "yes" {
			if got := s.hdr["X-Rep"]; strings.Join(got, "|") != "one|two" && strings.Join(got, "|") != "one, two" {
				c.Failf("repeated-header-changed", "backend saw X-Rep = %v\n%s", got, desc)
			}
		}
		forbidden := []string{"Connection", "Keep-Alive", "Proxy-Connection", "Proxy-Authenticate", "Proxy-Authorization", "Te", "Trailer", "Upgrade"}
		if strings.Contains(cs["connection"], "X-Foo") {
			forbidden = append(forbidden, "X-Foo")
		}
		if strings.Contains(cs["connection"], "X-Bar") {
			forbidden = append(forbidden, "X-Bar")
		}
		if cs["connection-second-line"] != "no" {
			forbidden = append(forbidden, "X-Baz")
		}
		for _, h := range forbidden {
			if v, ok := s.hdr[h]; ok {
				c.Failf("hop-by-hop-header-forwarded:"+h, "backend saw hop-by-hop header %s = %v\n%s", h, v, desc)
			}
		}
		if !strings.Contains(cs["connection"], "X-Foo") && len(s.hdr["X-Foo"]) == 0 {
			c.Failf("end-to-end-header-lost:X-Foo-not-named", "X-Foo was not named by Connection but did not reach the backend\n%s", desc)
		}
		wantHost := "front.example"
		if cs["server-url"] == "hostname" {
			wantHost = fmt.Sprintf("localhost:%d", c03Backend.port())
		}
		if s.host != wantHost {
			c.Failf("host-header:"+cs.tags("server-url"), "backend saw Host %q, expected %q\n%s", s.host, wantHost, desc)
		}
		// ---- what the client saw
		if cs["mode"] == "buffered-limit2000" && (len(sc.body) > 2000 || len(respLogical) > 2000) && !noRespBody {
			// a response body above serverMaxBodySize (on the wire, or once the transport has undone a gzip
			// encoding the client did not ask for) is refused: the business of C07, not of this check.  A HEAD
			// (or 204 / 304) response has no body whatever length it declares, so it is judged like any other.
			c.Outcome("response-over-the-body-limit")
			return
		}
		if resp.framingErr != "" {
			c.Failf("response-misframed:"+cs.tags(respDims...), "%s\n%s", resp.framingErr, desc)
		}
		if resp.status != status {
			c.Failf(fmt.Sprintf("status-changed:%d:%s", resp.status, cs.tags(respDims...)), "client got status %d, backend sent %d\n%s", resp.status, status, desc)
		}
		if got := strings.Join(resp.hdr.Values("X-Resp"), "|"); got != "v1|v2" && got != "v1, v2" {
			c.Failf("response-header-lost", "client got X-Resp = %q\n%s", got, desc)
		}
		if !noRespBody {
			wantResp := respLogical
			if cs["pipeline"] == "respadaptor-body" {
				wantResp = []byte("RESPONSE-BODY-FROM-ADAPTOR")
			}
			gotResp, lerr := logical(resp.body, resp.hdr)
			if lerr != nil || !bytes.Equal(gotResp, wantResp) {
				c.Failf("response-body-changed:"+cs.tags(respDims...), "client got a body of %d bytes (logical %d, label %q, decode error %v), expected logical content of %d bytes\n%s",
					len(resp.body), len(gotResp), resp.hdr.Get("Content-Encoding"), lerr, len(wantResp), desc)
			}
		}
		c.Outcome(fmt.Sprintf("%d/%s", resp.status, resp.framing))
	}
	job := mc.Job{Name: "deviations",
		Run: func(r *mc.Result, env *mc.Env) {
			mc.Explore(r, mc.Options{Job: "deviations", MaxDev: maxDev, SubShard: env.Shard, SubN: env.NShards, SubDepth: len(c03Dims), Env: env}, run)
		},
		Replay: func(ch []int) (*mc.Failure, []string) { return mc.ReplayOne(run, ch) }}
	mc.RunJobsAll("C03", []mc.Job{job})
}
