//go:build verif

//go:debug asynctimerchan=0

package httpserver

// C11 (d) — requests || mux.reload under the controlled scheduler (the mux's atomic.Value replaced by the
// gated vatomic.Value): every request must be served entirely under generation A or entirely under B (which
// differ in backend, rewrite target, X-Forwarded-For, body limit and ip filter), none may fail because of the
// reload, and a request started after reload returned sees B.

import (
	"strings"
	"testing"
	"testing/synctest"

	"github.com/megaease/easegress/pkg/zzverif/mc"
	"github.com/megaease/easegress/pkg/zzverif/vrt"
)

const (
	c11SpecA = `kind: HTTPServer
name: v
port: 18080
keepAlive: true
https: false
clientMaxBodySize: 10
rules:
- paths:
  - path: /x
    backend: p1
    rewriteTarget: /ra
`
	c11SpecB = `kind: HTTPServer
name: v
port: 18080
keepAlive: true
https: false
xForwardedFor: true
clientMaxBodySize: 100
ipFilter: {blockIPs: [6.6.6.6]}
rules:
- paths:
  - path: /x
    backend: p2
    rewriteTarget: /rb
`
)

type c11Obs struct {
	status         int
	backend, path  string
	xff            string
}

func c11Classify(o c11Obs, big bool, blocked bool) string {
	a := c11Obs{200, "p1", "/ra", ""}
	b := c11Obs{200, "p2", "/rb", "1.2.3.4"}
	if big {
		a = c11Obs{413, "", "", ""}
	}
	if blocked {
		a.xff, b = "", c11Obs{403, "", "", ""}
		if !big {
			a = c11Obs{200, "p1", "/ra", ""}
		}
	}
	switch o {
	case a:
		return "A"
	case b:
		return "B"
	}
	return ""
}

func TestVerifC11mux(t *testing.T) {
	synctest.Test(t, func(t *testing.T) {
		vrt.SetMode(vrt.ModeFree)
		env := mc.GetEnv()
		maxDev := 2
		if env.Thorough() {
			maxDev = -1
		}
		ssB, err := vNewSpec(c11SpecB)
		if err != nil {
			t.Fatal(err)
		}
		run := func(c *mc.Ctx) {
			rig, err := newVRig(c11SpecA)
			if err != nil {
				c.Failf("spec-rejected", "%v", err)
			}
			type reqKind struct {
				big, blocked bool
			}
			kinds := []reqKind{{false, false}, {true, false}, {false, true}}
			k1 := kinds[c.Choose(len(kinds), "request1-kind")]
			k2 := kinds[c.Choose(len(kinds), "request2-kind")]
			do := func(k reqKind) c11Obs {
				q := vReq{Host: "h", Path: "/x", Method: "POST", Remote: "1.2.3.4", Body: "0123456789012345678901234567890123456789"[:5]}
				if k.big {
					q.Body = strings.Repeat("b", 50)
				}
				if k.blocked {
					q.Remote = "6.6.6.6"
				}
				// each actor needs its own observation slot: the rig's handler writes to rig.cur
				o := rig.doIsolated(q)
				return c11Obs{o.Status, o.Backend, o.Path, o.XFF}
			}
			var o1, o2 c11Obs
			sch := vrt.New(c)
			sch.Go("request1", func() { o1 = do(k1) })
			sch.Go("request2", func() { o2 = do(k2) })
			sch.Go("reload", func() { rig.m.reload(ssB, rig) })
			if msg := sch.Run(); msg != "" {
				c.Failf("scheduler:"+msg[:8], "%s\n%s", msg, sch.TraceString())
			}
			c.Note("schedule: %s", sch.TraceString())
			g1, g2 := c11Classify(o1, k1.big, k1.blocked), c11Classify(o2, k2.big, k2.blocked)
			if g1 == "" || g2 == "" {
				bad, k := o1, k1
				if g1 != "" {
					bad, k = o2, k2
				}
				c.Failf("request-mixes-generations", "a request (big body %v, blocked client %v) concurrent with reload observed %+v, which is neither generation A nor generation B\nschedule: %s", k.big, k.blocked, bad, sch.TraceString())
			}
			after := do(kinds[0])
			if c11Classify(after, false, false) != "B" {
				c.Failf("new-request-sees-old-generation", "after reload returned a new request observed %+v", after)
			}
			c.Outcome(g1 + g2)
		}
		mc.RunJobsAll("C11", []mc.Job{mc.ExploreJob(mc.Options{Job: "mux-reload", MaxDev: maxDev}, run)})
	})
}
