// vinstr rewrites selected source files of /repo for the verification overlay.
//
// usage: vinstr spec.json   (spec: {"repo": "/repo", "out": dir, "files": [{"file": rel, "imports": {"sync": "vsync", ...}}]})
// prints {"rewritten": {abs-src: abs-dst}, "gaps": [..]} on stdout.
//
// Rewrites: import redirection ("sync" -> zzverif/vsync etc., keeping the local package name so
// that the code itself is unchanged).  If a file or a listed import is not found the gap is
// reported and the check continues weaker: an edit of /repo must never break the rewriter.
package main

import (
	"bytes"
	"encoding/json"
	"fmt"
	"go/ast"
	"go/parser"
	"go/printer"
	"go/token"
	"os"
	"path/filepath"
	"strconv"
	"strings"
)

const shimBase = "github.com/megaease/easegress/pkg/zzverif/"

type fileSpec struct {
	File    string            `json:"file"`
	Imports map[string]string `json:"imports"`
	GoGates bool              `json:"go_gates"` // insert vrt.Yield at the start of goroutine bodies / before channel sends
	Replace []replSpec        `json:"replace"`  // exact, unique textual replacements (e.g. a map range made explorer-ordered)
	NeedVrt bool              `json:"need_vrt"` // add the zzvrt import (used by replacements)
	// AddImports: local name -> shim package to import additionally (used by replacements), e.g. {"zzvnet": "vnet"}
	AddImports map[string]string `json:"add_imports"`
}

type replSpec struct {
	Old string `json:"old"`
	New string `json:"new"`
}

type spec struct {
	Repo  string     `json:"repo"`
	Out   string     `json:"out"`
	Files []fileSpec `json:"files"`
}

func main() {
	b, err := os.ReadFile(os.Args[1])
	if err != nil {
		fatal(err)
	}
	var sp spec
	if err := json.Unmarshal(b, &sp); err != nil {
		fatal(err)
	}
	rewritten := map[string]string{}
	gaps := []string{}
	for i, fs := range sp.Files {
		src := filepath.Join(sp.Repo, fs.File)
		fset := token.NewFileSet()
		text, rerr := os.ReadFile(src)
		if rerr != nil {
			gaps = append(gaps, fmt.Sprintf("%s: cannot read: %v", fs.File, rerr))
			continue
		}
		needVrt := false
		for _, r := range fs.Replace {
			if n := strings.Count(string(text), r.Old); n != 1 {
				gaps = append(gaps, fmt.Sprintf("%s: replacement site %q found %d times (want 1); left as is", fs.File, r.Old, n))
				continue
			}
			text = []byte(strings.Replace(string(text), r.Old, r.New, 1))
			needVrt = needVrt || fs.NeedVrt
		}
		f, err := parser.ParseFile(fset, src, text, parser.ParseComments)
		if err != nil {
			gaps = append(gaps, fmt.Sprintf("%s: cannot parse: %v", fs.File, err))
			continue
		}
		found := map[string]bool{}
		for _, im := range f.Imports {
			p, _ := strconv.Unquote(im.Path.Value)
			if shim, ok := fs.Imports[p]; ok {
				found[p] = true
				local := p[strings.LastIndex(p, "/")+1:]
				if im.Name != nil {
					local = im.Name.Name
				}
				im.Name = ast.NewIdent(local)
				im.Path.Value = strconv.Quote(shimBase + shim)
			}
		}
		for p := range fs.Imports {
			if !found[p] {
				gaps = append(gaps, fmt.Sprintf("%s: import %q not present (nothing to redirect)", fs.File, p))
			}
		}
		if fs.GoGates {
			if n := addGoGates(f); n > 0 {
				needVrt = true
			}
		}
		if needVrt {
			addImport(f, shimBase+"vrt", "zzvrt")
		}
		for local, shim := range fs.AddImports {
			addImport(f, shimBase+shim, local)
		}
		var buf bytes.Buffer
		if err := printer.Fprint(&buf, fset, f); err != nil {
			gaps = append(gaps, fmt.Sprintf("%s: cannot print: %v", fs.File, err))
			continue
		}
		dst := filepath.Join(sp.Out, fmt.Sprintf("%d_%s", i, filepath.Base(fs.File)))
		if err := os.WriteFile(dst, buf.Bytes(), 0o644); err != nil {
			fatal(err)
		}
		rewritten[src] = dst
	}
	out, _ := json.Marshal(map[string]interface{}{"rewritten": rewritten, "gaps": gaps})
	fmt.Println(string(out))
}

func addImport(f *ast.File, path, name string) {
	spec := &ast.ImportSpec{Name: ast.NewIdent(name), Path: &ast.BasicLit{Kind: token.STRING, Value: strconv.Quote(path)}}
	for _, d := range f.Decls {
		if gd, ok := d.(*ast.GenDecl); ok && gd.Tok == token.IMPORT {
			gd.Specs = append(gd.Specs, spec)
			if !gd.Lparen.IsValid() {
				gd.Lparen = gd.Pos()
				gd.Rparen = gd.End()
			}
			f.Imports = append(f.Imports, spec)
			return
		}
	}
	gd := &ast.GenDecl{Tok: token.IMPORT, Specs: []ast.Spec{spec}}
	f.Decls = append([]ast.Decl{gd}, f.Decls...)
	f.Imports = append(f.Imports, spec)
}

func yieldStmt(kind string) ast.Stmt {
	return &ast.ExprStmt{X: &ast.CallExpr{
		Fun:  &ast.SelectorExpr{X: ast.NewIdent("zzvrt"), Sel: ast.NewIdent("Yield")},
		Args: []ast.Expr{&ast.BasicLit{Kind: token.STRING, Value: strconv.Quote(kind)}},
	}}
}

// addGoGates inserts a gate at the first statement of every function literal started by a go
// statement and of every same-file function/method that is the callee of a go statement.
func addGoGates(f *ast.File) int {
	n := 0
	callees := map[string]bool{}
	ast.Inspect(f, func(nd ast.Node) bool {
		gs, ok := nd.(*ast.GoStmt)
		if !ok {
			return true
		}
		switch fn := gs.Call.Fun.(type) {
		case *ast.FuncLit:
			fn.Body.List = append([]ast.Stmt{yieldStmt("go-start")}, fn.Body.List...)
			n++
		case *ast.SelectorExpr:
			callees[fn.Sel.Name] = true
		case *ast.Ident:
			callees[fn.Name] = true
		}
		return true
	})
	for _, d := range f.Decls {
		if fd, ok := d.(*ast.FuncDecl); ok && fd.Body != nil && callees[fd.Name.Name] {
			fd.Body.List = append([]ast.Stmt{yieldStmt("go-start:" + fd.Name.Name)}, fd.Body.List...)
			n++
		}
	}
	return n
}

func fatal(err error) {
	fmt.Fprintln(os.Stderr, "vinstr:", err)
	os.Exit(1)
}
