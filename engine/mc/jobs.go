package mc

import (
	"encoding/json"
	"fmt"
	"os"
)

// Job is one independent unit of a check (usually one configuration).  Jobs are
// distributed over worker processes round-robin.
type Job struct {
	Name   string
	Run    func(res *Result, env *Env)
	Replay func(choices []int) (*Failure, []string)
}

// ExploreJob wraps a choice-tree exploration as a job.
func ExploreJob(o Options, run func(*Ctx)) Job {
	return Job{Name: o.Job,
		Run: func(res *Result, env *Env) {
			o.Env = env
			Explore(res, o, run)
		},
		Replay: func(ch []int) (*Failure, []string) { return ReplayOne(run, ch) }}
}

// BFSJob wraps an explicit-state search as a job.
func BFSJob(o BFSOptions, newSys func() Sys) Job {
	return Job{Name: o.Job,
		Run: func(res *Result, env *Env) {
			o.Env = env
			BFS(res, o, newSys)
		},
		Replay: func(ch []int) (*Failure, []string) { return ReplayPath(newSys, ch) }}
}

// ReplayFile is what the driver writes for a violation.
type ReplayFile struct {
	Property string   `json:"property"`
	Unit     string   `json:"unit"`
	Job      string   `json:"job"`
	Choices  []int    `json:"choices"`
	Key      string   `json:"key"`
	Msg      string   `json:"msg"`
	Notes    []string `json:"notes"`
}

// RunJobs is the body of every TestVerif<ID> function: job i runs in worker i mod n.
func RunJobs(id string, jobs []Job) { runJobs(id, jobs, false) }

// RunJobsAll runs every job in every worker (for jobs that shard their own tree).
func RunJobsAll(id string, jobs []Job) { runJobs(id, jobs, true) }

// RunJobsAllInfo is RunJobsAll with extra information for the evidence (e.g. what the model checker reported).
func RunJobsAllInfo(id string, jobs []Job, info map[string]interface{}) {
	extraInfo = info
	runJobs(id, jobs, true)
}

var extraInfo map[string]interface{}

// OnExit functions run after the result has been written, before the worker exits (clean-up of servers, temp dirs).
var OnExit []func()

func runJobs(id string, jobs []Job, all bool) {
	env := GetEnv()
	res := NewResult(id)
	for k, v := range extraInfo {
		res.Info[k] = v
	}
	defer func() {
		if p := recover(); p != nil {
			if ee, ok := p.(*EngineError); ok {
				res.EngineErrors = append(res.EngineErrors, ee.Msg)
				res.Exhaustive = false
				res.Write(env)
				return
			}
			panic(p)
		}
	}()
	if env.Replay != "" {
		b, err := os.ReadFile(env.Replay)
		if err != nil {
			panic(&EngineError{err.Error()})
		}
		var rf ReplayFile
		if err := json.Unmarshal(b, &rf); err != nil {
			panic(&EngineError{err.Error()})
		}
		found := false
		for _, j := range jobs {
			if j.Name != rf.Job {
				continue
			}
			found = true
			f, notes := j.Replay(rf.Choices)
			res.Executions = 1
			for _, n := range notes {
				fmt.Println("  step:", n)
			}
			if f != nil {
				fmt.Printf("REPLAY-FAILS key=%s\n%s\n", f.Key, f.Msg)
				res.Violations = append(res.Violations, Violation{Failure: *f, Job: rf.Job, Choices: rf.Choices, Notes: notes, Repro: "replay"})
			} else {
				fmt.Println("REPLAY-PASSES")
			}
		}
		if !found {
			panic(&EngineError{"replay: no job named " + rf.Job})
		}
		res.Write(env)
		return
	}
	names := map[string]bool{}
	for i, j := range jobs {
		if names[j.Name] {
			panic(&EngineError{"duplicate job name " + j.Name})
		}
		names[j.Name] = true
		if !all && !env.Mine(i) {
			continue
		}
		j.Run(res, env)
	}
	res.Info["jobs_total"] = len(jobs)
	res.Write(env)
	for _, f := range OnExit {
		f()
	}
	if env.Out != "" {
		// harnesses running inside a synctest bubble leave blocked goroutines of the system under test
		// behind; the bubble would panic on exit.  The result is on disk: end the worker here.
		os.Exit(0)
	}
}
