//go:build verif

//go:debug asynctimerchan=0

package httpserver

// C11 (d) — requests || mux.reload under the controlled scheduler (the mux's atomic.Value replaced by the
// gated vatomic.Value): every request must be served entirely under generation A or entirely under B (which
// differ in backend, rewrite target, X-Forwarded-For, body limit and ip filter), none may fail because of the
// reload, and a request started after reload returned sees B.

import (
	"fmt"
	"strings"
	"testing"
	"testing/synctest"

	"github.com/megaease/easegress/pkg/zzverif/mc"
	"github.com/megaease/easegress/pkg/zzverif/vrt"
)

const (
	c11SpecA = `kind: HTTPServer
name: v
port: 18080
keepAlive: true
https: false
clientMaxBodySize: 10
rules:
- paths:
  - path: /x
    backend: p1
    rewriteTarget: /ra
`
	c11SpecB = `kind: HTTPServer
name: v
port: 18080
keepAlive: true
https: false
xForwardedFor: true
clientMaxBodySize: 100
ipFilter: {blockIPs: [6.6.6.6]}
rules:
- paths:
  - path: /x
    backend: p2
    rewriteTarget: /rb
`
)

type c11Obs struct {
	status         int
	backend, path  string
	xff            string
}

func c11Classify(o c11Obs, big bool, blocked bool) string {
	a := c11Obs{200, "p1", "/ra", ""}
	b := c11Obs{200, "p2", "/rb", "1.2.3.4"}
	if big {
		a = c11Obs{413, "", "", ""}
	}
	if blocked {
		a.xff, b = "", c11Obs{403, "", "", ""}
		if !big {
			a = c11Obs{200, "p1", "/ra", ""}
		}
	}
	switch o {
	case a:
		return "A"
	case b:
		return "B"
	}
	return ""
}

func TestVerifC11mux(t *testing.T) {
	synctest.Test(t, func(t *testing.T) {
		vrt.SetMode(vrt.ModeFree)
		env := mc.GetEnv()
		maxDev := 2
		if env.Thorough() {
			maxDev = -1
		}
		ssB, err := vNewSpec(c11SpecB)
		if err != nil {
			t.Fatal(err)
		}
		run := func(c *mc.Ctx) {
			rig, err := newVRig(c11SpecA)
			if err != nil {
				c.Failf("spec-rejected", "%v", err)
			}
			type reqKind struct {
				big, blocked bool
			}
			kinds := []reqKind{{false, false}, {true, false}, {false, true}}
			k1 := kinds[c.Choose(len(kinds), "request1-kind")]
			k2 := kinds[c.Choose(len(kinds), "request2-kind")]
			do := func(k reqKind) c11Obs {
				q := vReq{Host: "h", Path: "/x", Method: "POST", Remote: "1.2.3.4", Body: "0123456789012345678901234567890123456789"[:5]}
				if k.big {
					q.Body = strings.Repeat("b", 50)
				}
				if k.blocked {
					q.Remote = "6.6.6.6"
				}
				// each actor needs its own observation slot: the rig's handler writes to rig.cur
				o := rig.doIsolated(q)
				return c11Obs{o.Status, o.Backend, o.Path, o.XFF}
			}
			var o1, o2 c11Obs
			sch := vrt.New(c)
			sch.Go("request1", func() { o1 = do(k1) })
			sch.Go("request2", func() { o2 = do(k2) })
			sch.Go("reload", func() { rig.m.reload(ssB, rig) })
			if msg := sch.Run(); msg != "" {
				c.Failf("scheduler:"+msg[:8], "%s\n%s", msg, sch.TraceString())
			}
			c.Note("schedule: %s", sch.TraceString())
			g1, g2 := c11Classify(o1, k1.big, k1.blocked), c11Classify(o2, k2.big, k2.blocked)
			if g1 == "" || g2 == "" {
				bad, k := o1, k1
				if g1 != "" {
					bad, k = o2, k2
				}
				c.Failf("request-mixes-generations", "a request (big body %v, blocked client %v) concurrent with reload observed %+v, which is neither generation A nor generation B\nschedule: %s", k.big, k.blocked, bad, sch.TraceString())
			}
			after := do(kinds[0])
			if c11Classify(after, false, false) != "B" {
				c.Failf("new-request-sees-old-generation", "after reload returned a new request observed %+v", after)
			}
			c.Outcome(g1 + g2)
		}
		// once the update has been applied every new request sees the new generation: after warm-up requests under
		// spec A and reload(B), every request must be answered exactly as a fresh mux built from B answers it
		specs := []string{c11SpecA, c11SpecB,
			strings.Replace(c11SpecA, "clientMaxBodySize: 10\n", "clientMaxBodySize: 10\ncacheSize: 8\n", 1),
			strings.Replace(c11SpecA, "clientMaxBodySize: 10\n", "clientMaxBodySize: 10\ncacheSize: 8\nipFilter: {blockIPs: [6.6.6.6]}\n", 1),
			strings.Replace(c11SpecA, "clientMaxBodySize: 10\n", "clientMaxBodySize: 10\ncacheSize: 8\nipFilter: {blockByDefault: true, allowIPs: [6.6.6.6]}\n", 1),
			strings.Replace(c11SpecB, "clientMaxBodySize: 100\n", "clientMaxBodySize: 100\ncacheSize: 8\n", 1),
			strings.Replace(strings.Replace(c11SpecA, "clientMaxBodySize: 10\n", "clientMaxBodySize: 10\ncacheSize: 8\n", 1), "path: /x", "path: /y", 1),
		}
		reqs := []vReq{
			{Host: "h", Path: "/x", Method: "POST", Remote: "1.2.3.4", Body: "small"},
			{Host: "h", Path: "/x", Method: "POST", Remote: "6.6.6.6", Body: "small"},
			{Host: "h", Path: "/y", Method: "POST", Remote: "1.2.3.4", Body: "small"},
			{Host: "h", Path: "/x", Method: "POST", Remote: "1.2.3.4", Body: strings.Repeat("b", 50)},
		}
		diff := func(c *mc.Ctx) {
			a := c.Choose(len(specs), "spec-before")
			b := c.Choose(len(specs), "spec-after")
			rig, err := newVRig(specs[a])
			if err != nil {
				c.Failf("spec-rejected", "%v", err)
			}
			for i := 0; i < 2; i++ {
				if k := c.Choose(len(reqs)+1, "warm-up-request"); k > 0 {
					rig.do(reqs[k-1])
				}
			}
			ssb, err := vNewSpec(specs[b])
			if err != nil {
				c.Failf("spec-rejected", "%v", err)
			}
			rig.m.reload(ssb, rig)
			fresh, _ := newVRig(specs[b])
			for i, q := range reqs {
				got, want := rig.do(q), fresh.do(q)
				if got != want {
					c.Failf("reloaded-server-differs-from-fresh-one", "spec %d -> reload -> spec %d: request %d (%s) answered %s, a fresh server with the new spec answers %s\nold spec:\n%s\nnew spec:\n%s", a, b, i, q, got, want, specs[a], specs[b])
				}
			}
			c.Outcome(fmt.Sprintf("%d->%d", a, b))
		}
		mc.RunJobsAll("C11", []mc.Job{mc.ExploreJob(mc.Options{Job: "mux-reload", MaxDev: maxDev}, run), mc.ExploreJob(mc.Options{Job: "mux-reload-differential", MaxDev: -1}, diff)})
	})
}
