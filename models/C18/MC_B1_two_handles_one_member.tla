---- MODULE MC_B1_two_handles_one_member ----
EXTENDS ClusterMutex, TLC
G == {"g1", "g2"}
HOf == ("g1" :> "h1" @@ "g2" :> "h2")
MOf == ("h1" :> "m1" @@ "h2" :> "m1")
====
