// Package http3 is a build stub: quic-go v0.27.2 does not compile with the Go
// toolchains installed in this sandbox, and HTTP/3 is out of scope for /verif.
package http3

import (
	"errors"
	"net/http"
)

// Server mirrors the part of http3.Server that easegress uses.
type Server struct {
	*http.Server
}

// ListenAndServe is not supported by the stub.
func (s *Server) ListenAndServe() error { return errors.New("http3 stub: not supported") }

// Close closes the server.
func (s *Server) Close() error { return nil }
