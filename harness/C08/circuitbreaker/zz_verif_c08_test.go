//go:build verif

package circuitbreaker

// C08 — explicit-state search over the real CircuitBreaker against the reference
// automaton of DESIGN.md Appendix A.3.

import (
	"fmt"
	"sort"
	"strings"
	"testing"
	"time"

	"github.com/megaease/easegress/pkg/zzverif/mc"
)

const (
	c08Wait    = 2 * time.Second
	c08SlowThr = 10 * time.Millisecond
)

type c08Policy struct {
	name string
	p    Policy
}

func c08Policies() []c08Policy {
	mk := func(name string, wt uint8, n, min uint32, fail, slow uint8, perm uint32, maxWait time.Duration) c08Policy {
		return c08Policy{name, Policy{FailureRateThreshold: fail, SlowCallRateThreshold: slow, SlidingWindowType: wt,
			SlidingWindowSize: n, PermittedNumberOfCallsInHalfOpen: perm, MinimumNumberOfCalls: min,
			SlowCallDurationThreshold: c08SlowThr, MaxWaitDurationInHalfOpen: maxWait, WaitDurationInOpen: c08Wait}}
	}
	var ps []c08Policy
	for _, wt := range []uint8{CountBased, TimeBased} {
		t := "COUNT"
		if wt == TimeBased {
			t = "TIME"
		}
		ps = append(ps,
			mk(t+"-n2-min1-f50-s100-p1-mw0", wt, 2, 1, 50, 100, 1, 0),
			mk(t+"-n3-min2-f50-s50-p2-mw3", wt, 3, 2, 50, 50, 2, 3*time.Second),
			mk(t+"-n3-min3-f34-s100-p2-mw0", wt, 3, 3, 34, 100, 2, 0),
			mk(t+"-n2-min2-f100-s50-p1-mw3", wt, 2, 2, 100, 50, 1, 3*time.Second),
			mk(t+"-n3-min1-f100-s100-p2-mw3", wt, 3, 1, 100, 100, 2, 3*time.Second),
			mk(t+"-n3-min3-f50-s100-p1-mw0", wt, 3, 3, 50, 100, 1, 0),
		)
	}
	return ps
}

// ---- reference automaton (Appendix A.3) ----

const (
	refClosed = iota
	refOpen
	refHalf
)

type refEntry struct {
	r   byte // 'S', 'F', 'L' (slow)
	sec int64
}

type refCB struct {
	p        *Policy
	mode     int
	epoch    uint32
	window   []refEntry
	openedAt time.Time
	halfAt   time.Time
	admitted uint32
}

func (r *refCB) acquire(now time.Time) (bool, uint32) {
	switch r.mode {
	case refClosed:
		return true, r.epoch
	case refOpen:
		if now.Sub(r.openedAt) < r.p.WaitDurationInOpen {
			return false, r.epoch
		}
		r.mode, r.halfAt, r.admitted, r.window = refHalf, now, 0, nil
		r.epoch++
	}
	// HALF
	if r.admitted < r.p.PermittedNumberOfCallsInHalfOpen {
		r.admitted++
		return true, r.epoch
	}
	if r.p.MaxWaitDurationInHalfOpen > 0 && now.Sub(r.halfAt) > r.p.MaxWaitDurationInHalfOpen {
		r.mode, r.openedAt = refOpen, now
		r.epoch++
	}
	return false, r.epoch
}

func (r *refCB) record(token uint32, err bool, dur time.Duration, now time.Time) {
	if token != r.epoch {
		return
	}
	res := byte('S')
	if err {
		res = 'F'
	} else if dur >= r.p.SlowCallDurationThreshold {
		res = 'L'
	}
	sec := now.Unix()
	r.window = append(r.window, refEntry{res, sec})
	if r.mode == refClosed {
		n := int(r.p.SlidingWindowSize)
		if r.p.SlidingWindowType == CountBased {
			if len(r.window) > n {
				r.window = r.window[len(r.window)-n:]
			}
		} else {
			w := r.window[:0:0]
			for _, e := range r.window {
				if e.sec > sec-int64(n) {
					w = append(w, e)
				}
			}
			r.window = w
		}
	}
	need := r.p.MinimumNumberOfCalls
	if r.mode == refHalf && r.p.PermittedNumberOfCallsInHalfOpen < need {
		need = r.p.PermittedNumberOfCallsInHalfOpen
	}
	if uint32(len(r.window)) < need {
		return
	}
	var f, l int
	for _, e := range r.window {
		switch e.r {
		case 'F':
			f++
		case 'L':
			l++
		}
	}
	tot := len(r.window)
	if 100*f >= int(r.p.FailureRateThreshold)*tot || 100*l >= int(r.p.SlowCallRateThreshold)*tot {
		r.mode, r.openedAt = refOpen, now
		r.epoch++
	} else if r.mode == refHalf {
		r.mode, r.window = refClosed, nil
		r.epoch++
	}
}

func (r *refCB) state() State {
	switch r.mode {
	case refClosed:
		return StateClosed
	case refOpen:
		return StateOpen
	}
	return StateHalfOpen
}

// ---- the system under search ----

type c08Token struct {
	real uint32
	ref  uint32
}

type c08Sys struct {
	pol     c08Policy
	cb      *CircuitBreaker
	ref     *refCB
	now     time.Time
	pending []c08Token
	ticks   []time.Duration
}

const c08MaxPending = 3

var c08Clock time.Time

func newC08Sys(pol c08Policy) *c08Sys {
	s := &c08Sys{pol: pol}
	s.now = time.Unix(1700000000, 0)
	c08Clock = s.now
	nowFunc = func() time.Time { return c08Clock }
	p := pol.p
	s.cb = New(&p)
	rp := pol.p
	s.ref = &refCB{p: &rp, mode: refClosed, epoch: 0}
	s.ticks = []time.Duration{time.Second, c08Wait - 1, c08Wait}
	if pol.p.MaxWaitDurationInHalfOpen > 0 {
		s.ticks = append(s.ticks, pol.p.MaxWaitDurationInHalfOpen+1)
	} else {
		s.ticks = append(s.ticks, 1)
	}
	return s
}

// ops: 0 acquire; 1..9 record(token k, result r); 10.. tick
func (s *c08Sys) NumOps() int { return 1 + 3*c08MaxPending + len(s.ticks) }

var c08ResNames = []string{"success", "failure", "slow"}

func (s *c08Sys) OpName(i int) string {
	switch {
	case i == 0:
		return "acquire"
	case i <= 3*c08MaxPending:
		return fmt.Sprintf("record(token#%d,%s)", (i-1)/3, c08ResNames[(i-1)%3])
	}
	return fmt.Sprintf("tick(%v)", s.ticks[i-1-3*c08MaxPending])
}

func (s *c08Sys) Enabled(i int) bool {
	switch {
	case i == 0:
		return len(s.pending) < c08MaxPending
	case i <= 3*c08MaxPending:
		return (i-1)/3 < len(s.pending)
	}
	return true
}

func (s *c08Sys) Apply(c *mc.Ctx, i int) {
	c08Clock = s.now
	switch {
	case i == 0:
		ok, id := s.cb.AcquirePermission()
		rok, rid := s.ref.acquire(s.now)
		if ok != rok {
			c.Failf("acquire-permit-mismatch:"+c08StateName(s.ref.state()), "policy %s: AcquirePermission=%v, reference=%v (reference state %s, impl state %s)",
				s.pol.name, ok, rok, c08StateName(s.ref.state()), c08StateName(s.cb.State()))
		}
		if ok {
			s.pending = append(s.pending, c08Token{id, rid})
			c.AddOutcome("permit")
		} else {
			c.AddOutcome("deny")
		}
	case i <= 3*c08MaxPending:
		k, r := (i-1)/3, (i-1)%3
		t := s.pending[k]
		s.pending = append(append([]c08Token{}, s.pending[:k]...), s.pending[k+1:]...)
		err := r == 1
		d := c08SlowThr - 1
		if r == 2 {
			d = c08SlowThr
		}
		before := s.ref.state()
		s.cb.RecordResult(t.real, err, d)
		s.ref.record(t.ref, err, d, s.now)
		c.AddOutcome(fmt.Sprintf("rec-%s-in-%s->%s", c08ResNames[r], c08StateName(before), c08StateName(s.ref.state())))
	default:
		s.now = s.now.Add(s.ticks[i-1-3*c08MaxPending])
		c08Clock = s.now
	}
	if got, want := s.cb.State(), s.ref.state(); got != want {
		c.Failf(fmt.Sprintf("state-mismatch:impl=%s,ref=%s", c08StateName(got), c08StateName(want)),
			"policy %s after %s: State()=%s, reference=%s", s.pol.name, s.OpName(i), c08StateName(got), c08StateName(want))
	}
}

func c08StateName(s State) string { return stateStrings[s] }

// Canon: everything AcquirePermission/RecordResult read, made relative.
func (s *c08Sys) Canon() string {
	var b strings.Builder
	cb := s.cb
	fmt.Fprintf(&b, "st=%d half=%d ", cb.state, cb.numberOfCallsInHalfOpen)
	switch w := cb.window.(type) {
	case *CountBasedWindow:
		fmt.Fprintf(&b, "cw[%d,%d,%d:", w.total, w.slow, w.failure)
		n := len(w.bucket)
		for k := 0; k < n; k++ {
			fmt.Fprintf(&b, "%d", w.bucket[(w.bucketIdx+k)%n])
		}
		b.WriteString("] ")
	case *TimeBasedWindow:
		fmt.Fprintf(&b, "tw[%d,%d,%d:", w.total, w.slow, w.failure)
		n := len(w.bucket)
		for k := 0; k < n; k++ {
			bk := w.bucket[(w.firstBucket+k)%n]
			fmt.Fprintf(&b, "(%d,%d,%d)", bk.total, bk.slow, bk.failure)
		}
		d := s.now.Sub(w.beginAt)
		secs := int64(d / time.Second)
		if secs > int64(2*n) {
			secs = int64(2 * n)
		}
		fmt.Fprintf(&b, " age=%ds+%dns] ", secs, int64(d%time.Second))
	}
	timeBased := s.pol.p.SlidingWindowType == TimeBased
	if timeBased {
		// the sub-second phase of the clock decides future bucket boundaries
		fmt.Fprintf(&b, "phase=%d ", s.now.Nanosecond())
	}
	el := s.now.Sub(cb.transitTime)
	capd := c08Wait
	if s.pol.p.MaxWaitDurationInHalfOpen > capd {
		capd = s.pol.p.MaxWaitDurationInHalfOpen
	}
	capd += time.Second
	if el > capd {
		el = capd
	}
	fmt.Fprintf(&b, "el=%d ", int64(el))
	toks := make([]string, 0, len(s.pending))
	for _, t := range s.pending {
		toks = append(toks, fmt.Sprintf("%d/%d", int64(cb.stateID)-int64(t.real), int64(s.ref.epoch)-int64(t.ref)))
	}
	sort.Strings(toks)
	fmt.Fprintf(&b, "tok=%v ", toks)
	// reference state (so that a divergence inside the reference is never merged away)
	fmt.Fprintf(&b, "| ref m=%d adm=%d w=", s.ref.mode, s.ref.admitted)
	for _, e := range s.ref.window {
		age := int64(0)
		if timeBased && s.ref.mode == refClosed {
			// entries of age >= N are dropped at the next record whatever their exact age
			if age = s.now.Unix() - e.sec; age > int64(s.pol.p.SlidingWindowSize) {
				age = int64(s.pol.p.SlidingWindowSize)
			}
		}
		fmt.Fprintf(&b, "%c%d", e.r, age)
	}
	return b.String()
}

func TestVerifC08(t *testing.T) {
	env := mc.GetEnv()
	depth := 9
	if env.Thorough() {
		depth = 13
	}
	var jobs []mc.Job
	for _, pol := range c08Policies() {
		pol := pol
		jobs = append(jobs, mc.BFSJob(mc.BFSOptions{Job: "bfs/" + pol.name, MaxDepth: depth},
			func() mc.Sys { return newC08Sys(pol) }))
	}
	mc.RunJobs("C08", jobs)
}
