//go:build verif

package PKG

// Flow model shared by the C02 units: a recording test-only filter kind, the flow generator, the reference
// validity predicate and the reference interpreter (DESIGN Appendix A.2).

import (
	"fmt"
	"strings"

	"github.com/megaease/easegress/pkg/context"
	"github.com/megaease/easegress/pkg/filters"
	"github.com/megaease/easegress/pkg/logger"
	"github.com/megaease/easegress/pkg/protocols/httpprot"
	"github.com/megaease/easegress/pkg/tracing"
	"github.com/megaease/easegress/pkg/zzverif/mc"
)

func init() {
	logger.InitNop()
	filters.Register(vKind)
}

// ---- test-only filter kind ----

type vInvocation struct{ filter, ns string }

var (
	vCtx     *mc.Ctx
	vRec     []vInvocation
	vMarkers map[interface{}]string
	vResults = []string{"", "r1", "r2"}
	// vFixedResult: every invocation returns "" without consulting the explorer
	vFixedResult bool
)

var vKind = &filters.Kind{
	Name:           "VKind",
	Description:    "verification test filter",
	Results:        []string{"r1", "r2"},
	DefaultSpec:    func() filters.Spec { return &vSpec{} },
	CreateInstance: func(spec filters.Spec) filters.Filter { return &vFilter{spec: spec.(*vSpec)} },
}

type vSpec struct {
	filters.BaseSpec `yaml:",inline"`
}

type vFilter struct{ spec *vSpec }

func (f *vFilter) Name() string                { return f.spec.Name() }
func (f *vFilter) Kind() *filters.Kind         { return vKind }
func (f *vFilter) Spec() filters.Spec          { return f.spec }
func (f *vFilter) Init()                       {}
func (f *vFilter) Inherit(prev filters.Filter) {}
func (f *vFilter) Status() interface{}         { return nil }
func (f *vFilter) Close()                      {}
func (f *vFilter) Handle(ctx *context.Context) string {
	ns := "?"
	if r := ctx.GetInputRequest(); r != nil {
		ns = vMarkers[r]
	}
	vRec = append(vRec, vInvocation{f.spec.Name(), ns})
	if vFixedResult {
		return ""
	}
	return vResults[vCtx.Choose(3, "result")]
}

// ---- flow model ----

type vNode struct {
	filter, alias, ns string
	jump              [][2]string // ordered (result, target)
}

func (n vNode) name() string {
	if n.alias != "" {
		return n.alias
	}
	return n.filter
}

func flowYAML(flow []vNode, ind string) string {
	var b strings.Builder
	for _, n := range flow {
		fmt.Fprintf(&b, "%s- filter: %s\n", ind, n.filter)
		if n.alias != "" {
			fmt.Fprintf(&b, "%s  alias: %s\n", ind, n.alias)
		}
		if n.ns != "" {
			fmt.Fprintf(&b, "%s  namespace: %s\n", ind, n.ns)
		}
		if len(n.jump) > 0 {
			fmt.Fprintf(&b, "%s  jumpIf:\n", ind)
			for _, j := range n.jump {
				fmt.Fprintf(&b, "%s    %s: %s\n", ind, j[0], j[1])
			}
		}
	}
	return b.String()
}

func pipelineYAML(name string, flow []vNode, filterNames []string) string {
	var b strings.Builder
	fmt.Fprintf(&b, "name: %s\nkind: Pipeline\n", name)
	if len(flow) > 0 {
		b.WriteString("flow:\n" + flowYAML(flow, ""))
	}
	b.WriteString("filters:\n")
	for _, f := range filterNames {
		fmt.Fprintf(&b, "- name: %s\n  kind: VKind\n", f)
	}
	return b.String()
}

// refValid: DESIGN A.2.
func refValid(flow []vNode, filterNames []string) bool {
	seen := map[string]bool{}
	for _, f := range filterNames {
		if f == "END" || seen[f] {
			return false
		}
		seen[f] = true
	}
	for i, n := range flow {
		if n.filter == "END" {
			continue
		}
		if !seen[n.filter] {
			return false
		}
		for _, j := range n.jump {
			if j[0] != "r1" && j[0] != "r2" {
				return false
			}
			if j[1] == "END" {
				continue
			}
			cnt := 0
			for _, m := range flow[i+1:] {
				if m.filter != "END" && m.name() == j[1] {
					cnt++
				}
			}
			if cnt != 1 {
				return false
			}
		}
	}
	return true
}

type refRun struct {
	inv   []vInvocation
	names []string
	last  string
	ended bool
}

// refExec interprets one flow; results are taken from next().
func refExec(flow []vNode, next func() string, r *refRun) {
	i := 0
	for i < len(flow) {
		n := flow[i]
		if n.filter == "END" {
			r.ended = true
			return
		}
		ns := n.ns
		if ns == "" {
			ns = context.DefaultNamespace
		}
		r.inv = append(r.inv, vInvocation{n.filter, ns})
		r.names = append(r.names, n.name())
		r.last = next()
		if r.last == "" {
			i++
			continue
		}
		t := ""
		for _, j := range n.jump {
			if j[0] == r.last {
				t = j[1]
			}
		}
		if t == "" || t == "END" {
			r.ended = true
			return
		}
		k := -1
		for j := i + 1; j < len(flow); j++ {
			if flow[j].filter != "END" && flow[j].name() == t {
				k = j
				break
			}
		}
		if k < 0 {
			panic("reference: jump target not found in a valid flow")
		}
		i = k
	}
}

// ---- generation ----

var (
	vAliasMenu  = []string{"", "a", "b", "OTHER"}
	vTargetMenu = []string{"", "END", "f1", "f2", "a", "b", "zz"}
)

func genFlow(c *mc.Ctx, tag string, minNodes, maxNodes int) []vNode {
	n := minNodes + c.Choose(maxNodes-minNodes+1, tag+".len")
	flow := make([]vNode, 0, n)
	for i := 0; i < n; i++ {
		t := fmt.Sprintf("%s[%d]", tag, i)
		f := []string{"f1", "f2", "END"}[c.Choose(3, t+".filter")]
		if f != "END" && c.ChooseDev(2, t+".undefined-filter") == 1 {
			f = "f9"
		}
		node := vNode{filter: f}
		if f == "END" {
			flow = append(flow, node)
			continue
		}
		a := vAliasMenu[c.ChooseDev(len(vAliasMenu), t+".alias")]
		if a == "OTHER" {
			a = map[string]string{"f1": "f2", "f2": "f1", "f9": "f1"}[f]
		}
		node.alias = a
		if c.ChooseDev(2, t+".ns") == 1 {
			node.ns = "n1"
		}
		for _, res := range []string{"r1", "r2", "rx"} {
			tg := vTargetMenu[c.ChooseDev(len(vTargetMenu), t+".jump."+res)]
			if tg != "" {
				node.jump = append(node.jump, [2]string{res, tg})
			}
		}
		flow = append(flow, node)
	}
	return flow
}

func newVCtx() *context.Context {
	ctx := context.New(tracing.NoopSpan)
	rd, _ := httpprot.NewRequest(nil)
	rn, _ := httpprot.NewRequest(nil)
	ctx.SetRequest(context.DefaultNamespace, rd)
	ctx.SetRequest("n1", rn)
	vMarkers = map[interface{}]string{rd: context.DefaultNamespace, rn: "n1"}
	return ctx
}

func statNames(tags string) []string {
	i := strings.Index(tags, "pipeline: ")
	if i < 0 {
		return nil
	}
	s := tags[i+len("pipeline: "):]
	if strings.HasPrefix(s, "<empty>") {
		return nil
	}
	var names []string
	for _, part := range strings.Split(s, "->") {
		if k := strings.Index(part, "("); k >= 0 {
			names = append(names, part[:k])
		}
	}
	return names
}

func compareRun(c *mc.Ctx, what string, got string, ctx *context.Context, ref *refRun, y string) {
	if fmt.Sprint(vRec) != fmt.Sprint(ref.inv) {
		c.Failf("exec:invocation-sequence", "%s: filters invoked (filter, namespace) %v, reference %v\n%s", what, vRec, ref.inv, y)
	}
	if got != ref.last {
		c.Failf("exec:pipeline-result", "%s: result %q, reference %q\n%s", what, got, ref.last, y)
	}
	if names := statNames(ctx.Tags()); fmt.Sprint(names) != fmt.Sprint(ref.names) {
		c.Failf("exec:stat-names", "%s: stats tag names %v, reference %v (tags %q)\n%s", what, names, ref.names, ctx.Tags(), y)
	}
}

