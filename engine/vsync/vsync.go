// Package vsync substitutes for "sync" in instrumented files (import rewritten by vinstr).
// In vrt.ModeReal every type behaves as (and embeds) the std primitive; inside a bubble the
// mutexes are implemented with a held flag so that a blocked goroutine is durably blocked,
// and in Controlled mode every blocking / shared-state operation is a scheduler gate.
package vsync

import (
	"sync"

	"github.com/megaease/easegress/pkg/zzverif/vrt"
)

// Aliases: these types cross package boundaries or need no control.
type (
	WaitGroup = sync.WaitGroup
	Locker    = sync.Locker
	Pool      = sync.Pool
	Cond      = sync.Cond
)

// NewCond is sync.NewCond.
func NewCond(l Locker) *Cond { return sync.NewCond(l) }

// Mutex is a gated mutex.
type Mutex struct {
	mu   sync.Mutex
	held bool
}

// Lock locks m.
func (m *Mutex) Lock() {
	if vrt.Mode() == vrt.ModeReal {
		m.mu.Lock()
		return
	}
	for {
		vrt.Gate(vrt.Op{Kind: "Lock", Obj: m, Enabled: func() bool { return !m.held }})
		vrt.Internal.Lock()
		if !m.held {
			m.held = true
			vrt.Internal.Unlock()
			return
		}
		vrt.Internal.Unlock()
		if vrt.Mode() != vrt.ModeControlled {
			vrt.FreeWait()
		}
	}
}

// TryLock tries to lock m.
func (m *Mutex) TryLock() bool {
	if vrt.Mode() == vrt.ModeReal {
		return m.mu.TryLock()
	}
	vrt.Gate(vrt.Op{Kind: "TryLock", Obj: m})
	vrt.Internal.Lock()
	defer vrt.Internal.Unlock()
	if m.held {
		return false
	}
	m.held = true
	return true
}

// Unlock unlocks m.
func (m *Mutex) Unlock() {
	if vrt.Mode() == vrt.ModeReal {
		m.mu.Unlock()
		return
	}
	vrt.Internal.Lock()
	if !m.held {
		vrt.Internal.Unlock()
		panic("vsync: unlock of unlocked mutex")
	}
	m.held = false
	vrt.Internal.Unlock()
}

// RWMutex is a gated reader/writer mutex (no writer preference).
type RWMutex struct {
	mu      sync.RWMutex
	writer  bool
	readers int
}

// Lock takes the write lock.
func (m *RWMutex) Lock() {
	if vrt.Mode() == vrt.ModeReal {
		m.mu.Lock()
		return
	}
	for {
		vrt.Gate(vrt.Op{Kind: "WLock", Obj: m, Enabled: func() bool { return !m.writer && m.readers == 0 }})
		vrt.Internal.Lock()
		if !m.writer && m.readers == 0 {
			m.writer = true
			vrt.Internal.Unlock()
			return
		}
		vrt.Internal.Unlock()
		if vrt.Mode() != vrt.ModeControlled {
			vrt.FreeWait()
		}
	}
}

// Unlock releases the write lock.
func (m *RWMutex) Unlock() {
	if vrt.Mode() == vrt.ModeReal {
		m.mu.Unlock()
		return
	}
	vrt.Internal.Lock()
	if !m.writer {
		vrt.Internal.Unlock()
		panic("vsync: Unlock of unlocked RWMutex")
	}
	m.writer = false
	vrt.Internal.Unlock()
}

// RLock takes a read lock.
func (m *RWMutex) RLock() {
	if vrt.Mode() == vrt.ModeReal {
		m.mu.RLock()
		return
	}
	for {
		vrt.Gate(vrt.Op{Kind: "RLock", Obj: m, Enabled: func() bool { return !m.writer }})
		vrt.Internal.Lock()
		if !m.writer {
			m.readers++
			vrt.Internal.Unlock()
			return
		}
		vrt.Internal.Unlock()
		if vrt.Mode() != vrt.ModeControlled {
			vrt.FreeWait()
		}
	}
}

// RUnlock releases a read lock.
func (m *RWMutex) RUnlock() {
	if vrt.Mode() == vrt.ModeReal {
		m.mu.RUnlock()
		return
	}
	vrt.Internal.Lock()
	if m.readers <= 0 {
		vrt.Internal.Unlock()
		panic("vsync: RUnlock of unlocked RWMutex")
	}
	m.readers--
	vrt.Internal.Unlock()
}

// RLocker returns a Locker for the read side.
func (m *RWMutex) RLocker() Locker { return (*rlocker)(m) }

type rlocker RWMutex

func (r *rlocker) Lock()   { (*RWMutex)(r).RLock() }
func (r *rlocker) Unlock() { (*RWMutex)(r).RUnlock() }

// Once is a gated sync.Once.
type Once struct {
	m    Mutex
	done bool
	o    sync.Once
}

// Do calls f once.
func (o *Once) Do(f func()) {
	if vrt.Mode() == vrt.ModeReal {
		o.o.Do(f)
		return
	}
	o.m.Lock()
	defer o.m.Unlock()
	if !o.done {
		defer func() { o.done = true }()
		f()
	}
}

// Map is sync.Map with a gate before every operation.
type Map struct {
	m sync.Map
}

func gateMap(kind string, m *Map) { vrt.Gate(vrt.Op{Kind: kind, Obj: m}) }

// Load is sync.Map.Load.
func (m *Map) Load(key interface{}) (interface{}, bool) { gateMap("Map.Load", m); return m.m.Load(key) }

// Store is sync.Map.Store.
func (m *Map) Store(key, value interface{}) { gateMap("Map.Store", m); m.m.Store(key, value) }

// LoadOrStore is sync.Map.LoadOrStore.
func (m *Map) LoadOrStore(key, value interface{}) (interface{}, bool) {
	gateMap("Map.LoadOrStore", m)
	return m.m.LoadOrStore(key, value)
}

// LoadAndDelete is sync.Map.LoadAndDelete.
func (m *Map) LoadAndDelete(key interface{}) (interface{}, bool) {
	gateMap("Map.LoadAndDelete", m)
	return m.m.LoadAndDelete(key)
}

// Delete is sync.Map.Delete.
func (m *Map) Delete(key interface{}) { gateMap("Map.Delete", m); m.m.Delete(key) }

// Range is sync.Map.Range (one gate at the start; the iteration itself is not interleaved).
func (m *Map) Range(f func(key, value interface{}) bool) { gateMap("Map.Range", m); m.m.Range(f) }
