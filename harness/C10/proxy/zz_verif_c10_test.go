//go:build verif

//go:debug asynctimerchan=0

package proxy

// C10 — Retry / time limit / one circuit-breaker record per client request, on the real
// ServerPool.handle in virtual time (synctest bubble).  fnSendRequest is a stub whose answer
// for every attempt is an explorer choice; the retry jitter (rand.Intn in pkg/resilience/retry.go,
// redirected to vrand) is explored at its extremes and middle; the client cancels at chosen instants.

import (
	stdcontext "context"
	"errors"
	"fmt"
	"io"
	"math"
	"net/http"
	"strings"
	"testing"
	"testing/synctest"
	"time"

	"github.com/megaease/easegress/pkg/context"
	"github.com/megaease/easegress/pkg/protocols/httpprot"
	"github.com/megaease/easegress/pkg/tracing"
	"github.com/megaease/easegress/pkg/zzverif/mc"
	"github.com/megaease/easegress/pkg/zzverif/vrand"
)

type c10Cfg struct {
	maxAttempts int
	backoff     string
	factor      float64
	timeout     bool // pool timeout 50ms
	stream      bool
}

func (c c10Cfg) String() string {
	return fmt.Sprintf("max%d-%s-f%.1f-timeout%v-stream%v", c.maxAttempts, c.backoff, c.factor, c.timeout, c.stream)
}

const (
	c10Wait    = 100 * time.Millisecond
	c10Timeout = 50 * time.Millisecond
)

func c10Spec(cfg c10Cfg, breaker bool) (string, []string) {
	var b strings.Builder
	b.WriteString("name: proxy\nkind: Proxy\npools:\n- servers:\n  - url: http://10.0.0.1:80\n  failureCodes: [503]\n  retryPolicy: retry\n")
	if cfg.timeout {
		b.WriteString("  timeout: 50ms\n")
	}
	if breaker {
		b.WriteString("  circuitBreakerPolicy: cb\n")
	}
	pols := []string{fmt.Sprintf("name: retry\nkind: Retry\nmaxAttempts: %d\nwaitDuration: 100ms\nbackOffPolicy: %s\nrandomizationFactor: %v\n", cfg.maxAttempts, cfg.backoff, cfg.factor)}
	if breaker {
		pols = append(pols, "name: cb\nkind: CircuitBreaker\nslidingWindowType: COUNT_BASED\nslidingWindowSize: 2\nminimumNumberOfCalls: 2\nfailureRateThreshold: 50\nwaitDurationInOpenState: 10m\n")
	}
	return b.String(), pols
}

type c10Call struct {
	start, end time.Duration // virtual offsets from the start of the client request
	outcome    string
}

var c10Outcomes = []string{"ok", "503", "neterr", "hang", "slow-ok", "slow-503"}

var errC10Net = errors.New("verif: connection refused")

func c10Resp(code int) *http.Response {
	return &http.Response{StatusCode: code, Header: http.Header{}, Body: io.NopCloser(strings.NewReader("x")), ContentLength: 1}
}

// expected (status, result) of one attempt as the client would see it if it is the last one
func c10Expect(outcome string, timedOut, cancelled bool) (int, string) {
	switch {
	case cancelled:
		return 499, resultClientError
	case timedOut:
		return http.StatusRequestTimeout, resultTimeout
	}
	switch outcome {
	case "ok", "slow-ok":
		return 200, ""
	case "503", "slow-503":
		return 503, resultFailureCode
	}
	return 503, resultServerError // network error (also a hanging backend that finally fails)
}

func TestVerifC10(t *testing.T) {
	synctest.Test(t, func(t *testing.T) {
		env := mc.GetEnv()
		var cfgs []c10Cfg
		for _, ma := range []int{1, 2, 3} {
			for _, bo := range []string{"random", "exponential"} {
				for _, f := range []float64{0, 0.5} {
					for _, to := range []bool{false, true} {
						cfgs = append(cfgs, c10Cfg{ma, bo, f, to, false})
					}
				}
			}
		}
		cfgs = append(cfgs, c10Cfg{3, "random", 0, false, true}, c10Cfg{3, "exponential", 0.5, true, true})
		// longer retry chains: the exponential back-off must keep compounding (w, 1.5w, 2.25w, 3.375w, ...) and a random one must not shrink
		cfgs = append(cfgs, c10Cfg{4, "exponential", 0, false, false}, c10Cfg{4, "exponential", 0.5, true, false}, c10Cfg{4, "random", 0.5, false, false})
		cancels := []time.Duration{0, 10*time.Millisecond + 3, 75*time.Millisecond + 3, 120*time.Millisecond + 3}
		if env.Thorough() {
			cancels = append(cancels, 30*time.Millisecond+3, 260*time.Millisecond+3)
		}
		var jobs []mc.Job
		for _, cfg := range cfgs {
			cfg := cfg
			run := func(c *mc.Ctx) {
				defer vrand.Set(nil)
				y, pols := c10Spec(cfg, false)
				p, err := vNewProxy(y, pols)
				if err != nil {
					c.Failf("spec-rejected", "%v\n%s", err, y)
				}
				cancelAt := cancels[c.Choose(len(cancels), "cancel-at")]
				t0 := time.Now()
				var calls []*c10Call
				fnSendRequest = func(r *http.Request, client *http.Client) (*http.Response, error) {
					call := &c10Call{start: time.Since(t0)}
					calls = append(calls, call)
					call.outcome = c10Outcomes[c.Choose(len(c10Outcomes), "attempt-outcome")]
					defer func() { call.end = time.Since(t0) }()
					wait := func(d time.Duration) error {
						select {
						case <-r.Context().Done():
							return r.Context().Err()
						case <-time.After(d):
							return nil
						}
					}
					switch call.outcome {
					case "ok":
						return c10Resp(200), nil
					case "503":
						return c10Resp(503), nil
					case "neterr":
						return nil, errC10Net
					case "hang":
						if err := wait(10 * time.Second); err != nil {
							return nil, err
						}
						return nil, errC10Net
					case "slow-ok", "slow-503":
						if err := wait(30 * time.Millisecond); err != nil {
							return nil, err
						}
						if call.outcome == "slow-ok" {
							return c10Resp(200), nil
						}
						return c10Resp(503), nil
					}
					panic("unreachable")
				}
				vrand.Set(c)
				cctx, cancel := stdcontext.WithCancel(stdcontext.Background())
				defer cancel()
				if cancelAt > 0 {
					go func() {
						time.Sleep(cancelAt)
						cancel()
					}()
				}
				stdr, _ := http.NewRequestWithContext(cctx, "POST", "http://client.example/x", strings.NewReader("body"))
				req, _ := httpprot.NewRequest(stdr)
				if cfg.stream {
					req.FetchPayload(-1)
				} else {
					req.FetchPayload(1 << 20)
				}
				ectx := context.New(tracing.NoopSpan)
				ectx.SetInputRequest(req)
				result := p.Handle(ectx)
				took := time.Since(t0)
				status := 0
				if r := ectx.GetOutputResponse(); r != nil {
					status = r.(*httpprot.Response).StatusCode()
				}
				// ---- oracle ----
				desc := func() string {
					s := fmt.Sprintf("config %s cancel@%v: result %q status %d after %v; attempts:", cfg, cancelAt, result, status, took)
					for i, cl := range calls {
						s += fmt.Sprintf(" #%d[%v..%v %s]", i+1, cl.start, cl.end, cl.outcome)
					}
					return s
				}
				c.Note("%s", desc())
				max := cfg.maxAttempts
				if cfg.stream {
					max = 1
				}
				if len(calls) > max {
					key := "more-attempts-than-maxAttempts"
					if cfg.stream {
						key = "stream-body-resent"
					}
					c.Failf(key, "%s", desc())
				}
				if len(calls) == 0 {
					c.Failf("no-attempt", "%s", desc())
				}
				for i, cl := range calls {
					// in virtual time a waiting stub returns at the very instant its context ends
					cancelled := cancelAt > 0 && cl.end == cancelAt && cl.end > cl.start
					timedOut := !cancelled && cfg.timeout && cl.outcome == "hang" && cl.end-cl.start == c10Timeout
					success := !timedOut && !cancelled && (cl.outcome == "ok" || cl.outcome == "slow-ok")
					if cancelAt > 0 && cl.start > cancelAt {
						c.Failf("attempt-after-cancel", "%s", desc())
					}
					if i < len(calls)-1 {
						if success {
							c.Failf("retried-after-success", "%s", desc())
						}
						base := float64(c10Wait)
						if cfg.backoff == "exponential" {
							base *= math.Pow(1.5, float64(i))
						}
						minGap := time.Duration(base * (1 - cfg.factor))
						if gap := calls[i+1].start - cl.end; gap < minGap-time.Microsecond {
							c.Failf("backoff-too-short", "gap %v between attempt %d and %d, minimum %v: %s", gap, i+1, i+2, minGap, desc())
						}
					} else {
						wantStatus, wantResult := c10Expect(cl.outcome, timedOut, cancelled)
						if status != wantStatus || result != wantResult {
							c.Failf(fmt.Sprintf("final-outcome:want=%d/%s,got=%d/%s", wantStatus, wantResult, status, result), "last attempt implies status %d result %q: %s", wantStatus, wantResult, desc())
						}
						// must not give up early: a failed, uncancelled last attempt before maxAttempts is only right if cancelled during back-off
						if !success && len(calls) < max && (cancelAt == 0 || cancelAt > took) {
							c.Failf("gave-up-before-maxAttempts", "%s", desc())
						}
					}
					if cfg.timeout && cl.end-cl.start > c10Timeout+time.Microsecond {
						c.Failf("attempt-outlived-timeout", "%s", desc())
					}
				}
				c.Outcome(fmt.Sprintf("%d-attempts-%d-%s", len(calls), status, result))
			}
			jobs = append(jobs, mc.ExploreJob(mc.Options{Job: "retry/" + cfg.String(), MaxDev: -1}, run))
		}
		// circuit breaker around retry: one record per client request; short circuit => 503, no backend call
		for _, ma := range []int{1, 3} {
			ma := ma
			run := func(c *mc.Ctx) {
				defer vrand.Set(nil)
				cfg := c10Cfg{ma, "random", 0, false, false}
				y, pols := c10Spec(cfg, true)
				p, err := vNewProxy(y, pols)
				if err != nil {
					c.Failf("spec-rejected", "%v\n%s", err, y)
				}
				ncalls := 0
				fnSendRequest = func(r *http.Request, client *http.Client) (*http.Response, error) {
					ncalls++
					if c.Choose(2, "failure-kind") == 0 {
						return c10Resp(503), nil
					}
					return nil, errC10Net
				}
				vrand.Set(c)
				for i := 1; i <= 4; i++ {
					before := ncalls
					stdr, _ := http.NewRequest("GET", "http://client.example/x", nil)
					o := vHandle(p, stdr)
					made := ncalls - before
					c.Note("client request %d: status %d result %q backend calls %d", i, o.status, o.result, made)
					if i <= 2 {
						if made != ma || o.result == resultShortCircuited {
							c.Failf("breaker-records-per-attempt", "window 2 / minimum 2: client request %d (of which %d failed before) made %d backend calls (want %d), result %q", i, i-1, made, ma, o.result)
						}
					} else {
						if o.result != resultShortCircuited || o.status != 503 || made != 0 {
							c.Failf("short-circuit-contract", "client request %d after 2 failed client requests: status %d result %q backend calls %d; want 503 shortCircuited and no backend call", i, o.status, o.result, made)
						}
					}
				}
				c.Outcome("breaker-opened-at-request-2")
			}
			jobs = append(jobs, mc.ExploreJob(mc.Options{Job: fmt.Sprintf("breaker-around-retry/max%d", ma), MaxDev: -1}, run))
		}
		// a client request that is cancelled while its attempt (or back-off) is in flight still records exactly one
		// outcome.  Kind-agnostic oracle (the statement does not say WHICH outcome a cancelled request records):
		// window 2 / minimum 2 / threshold 50%: after two client requests of which at least one really failed the
		// breaker must be open (two records, at least one failure, whatever the cancelled one counted as), and it
		// must not be open after one request only
		for _, ma := range []int{1, 2} {
			ma := ma
			run := func(c *mc.Ctx) {
				defer vrand.Set(nil)
				cfg := c10Cfg{ma, "random", 0, false, false}
				y, pols := c10Spec(cfg, true)
				p, err := vNewProxy(y, pols)
				if err != nil {
					c.Failf("spec-rejected", "%v\n%s", err, y)
				}
				fates := []string{"503", "neterr", "cancelled-in-attempt", "cancelled-in-back-off"}
				if ma == 1 {
					fates = fates[:3]
				}
				var fate string
				ncalls := 0
				fnSendRequest = func(r *http.Request, client *http.Client) (*http.Response, error) {
					ncalls++
					switch fate {
					case "503", "cancelled-in-back-off":
						return c10Resp(503), nil
					case "neterr":
						return nil, errC10Net
					case "healthy":
						return c10Resp(200), nil
					}
					<-r.Context().Done()
					return nil, r.Context().Err()
				}
				vrand.Set(c)
				do := func() (vProxyObs, int) {
					before := ncalls
					cctx, cancel := stdcontext.WithCancel(stdcontext.Background())
					defer cancel()
					if strings.HasPrefix(fate, "cancelled") {
						go func() {
							time.Sleep(10 * time.Millisecond) // inside the hanging attempt / inside the first back-off (>= 100 ms)
							cancel()
						}()
					}
					stdr, _ := http.NewRequestWithContext(cctx, "GET", "http://client.example/x", nil)
					o := vHandle(p, stdr)
					synctest.Wait()
					return o, ncalls - before
				}
				realFailures := 0
				var hist []string
				for i := 1; i <= 2; i++ {
					fate = fates[c.Choose(len(fates), "fate")]
					hist = append(hist, fate)
					if !strings.HasPrefix(fate, "cancelled") {
						realFailures++
					}
					o, made := do()
					c.Note("client request %d (%s): status %d result %q backend calls %d", i, fate, o.status, o.result, made)
					if o.result == resultShortCircuited || made == 0 {
						c.Failf("breaker-open-too-early", "window 2 / minimum 2: client request %d of %v was short-circuited (backend calls %d)", i, hist, made)
					}
				}
				if realFailures == 0 {
					c.Outcome("two-cancelled-requests")
					return
				}
				fate = "healthy"
				o, made := do()
				if o.result != resultShortCircuited || made != 0 {
					c.Failf("cancelled-request-not-recorded", "window 2 / minimum 2 / threshold 50%%: after client requests %v (each must record one outcome, at least one of them a failure) the breaker must be open, but the third request got result %q status %d with %d backend calls", hist, o.result, o.status, made)
				}
				c.Outcome(strings.Join(hist, "+"))
			}
			jobs = append(jobs, mc.ExploreJob(mc.Options{Job: fmt.Sprintf("breaker-cancelled-requests/max%d", ma), MaxDev: -1}, run))
		}
		mc.RunJobs("C10", jobs)
	})
}
