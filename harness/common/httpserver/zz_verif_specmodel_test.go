//go:build verif

package httpserver

// Spec model (YAML generator) and reference router (DESIGN Appendix A.1), shared by C01/C05/C12/C11.

import (
	"fmt"
	"regexp"
	"strings"
)

type vHdr struct {
	Key    string
	Values []string
	Regexp string
}

type vEntry struct {
	Path, Prefix, Regexp string
	Methods              []string
	Headers              []vHdr
	MatchAll             bool
	Rewrite              string
	Backend              string
	IPFilter             string // yaml fragment (C05/C12)
}

type vRule struct {
	Host, HostRegexp string
	IPFilter         string
	Entries          []vEntry
}

func (e vEntry) yaml(ind string) string {
	var b strings.Builder
	first := true
	w := func(format string, a ...interface{}) {
		if first {
			b.WriteString(ind + "- ")
			first = false
		} else {
			b.WriteString(ind + "  ")
		}
		fmt.Fprintf(&b, format, a...)
		b.WriteString("\n")
	}
	w("backend: %s", e.Backend)
	if e.Path != "" {
		w("path: %q", e.Path)
	}
	if e.Prefix != "" {
		w("pathPrefix: %q", e.Prefix)
	}
	if e.Regexp != "" {
		w("pathRegexp: %q", e.Regexp)
	}
	if e.Rewrite != "" {
		w("rewriteTarget: %q", e.Rewrite)
	}
	if len(e.Methods) > 0 {
		w("methods: [%s]", strings.Join(e.Methods, ", "))
	}
	if e.MatchAll {
		w("matchAllHeader: true")
	}
	if e.IPFilter != "" {
		w("ipFilter: %s", e.IPFilter)
	}
	if len(e.Headers) > 0 {
		w("headers:")
		for _, h := range e.Headers {
			fmt.Fprintf(&b, "%s  - key: %s\n", ind, h.Key)
			if len(h.Values) > 0 {
				fmt.Fprintf(&b, "%s    values: [%s]\n", ind, `"`+strings.Join(h.Values, `", "`)+`"`)
			}
			if h.Regexp != "" {
				fmt.Fprintf(&b, "%s    regexp: %q\n", ind, h.Regexp)
			}
		}
	}
	return b.String()
}

func vServerYAML(rules []vRule, extra string) string {
	var b strings.Builder
	b.WriteString("kind: HTTPServer\nname: v\nport: 18080\nkeepAlive: true\nhttps: false\n")
	b.WriteString(extra)
	b.WriteString("rules:\n")
	for _, r := range rules {
		first := true
		w := func(s string) {
			if first {
				b.WriteString("- " + s + "\n")
				first = false
			} else {
				b.WriteString("  " + s + "\n")
			}
		}
		if r.Host != "" {
			w(fmt.Sprintf("host: %q", r.Host))
		}
		if r.HostRegexp != "" {
			w(fmt.Sprintf("hostRegexp: %q", r.HostRegexp))
		}
		if r.IPFilter != "" {
			w("ipFilter: " + r.IPFilter)
		}
		w("paths:")
		for _, e := range r.Entries {
			b.WriteString(e.yaml("  "))
		}
	}
	return b.String()
}

// ---- reference router (DESIGN Appendix A.1) ----

func refStripPort(h string) string {
	if strings.HasPrefix(h, "[") {
		if i := strings.Index(h, "]"); i > 0 {
			return h[1:i]
		}
		return h
	}
	if i := strings.LastIndex(h, ":"); i >= 0 && strings.Count(h, ":") == 1 {
		return h[:i]
	}
	return h
}

func refHdrOK(e vEntry, hdr func(string) string) bool {
	if e.MatchAll {
		for _, h := range e.Headers {
			v := hdr(h.Key)
			if len(h.Values) > 0 && !refIn(v, h.Values) {
				return false
			}
			if h.Regexp != "" && !regexp.MustCompile(h.Regexp).MatchString(v) {
				return false
			}
		}
		return true
	}
	for _, h := range e.Headers {
		v := hdr(h.Key)
		if refIn(v, h.Values) {
			return true
		}
		if h.Regexp != "" && regexp.MustCompile(h.Regexp).MatchString(v) {
			return true
		}
	}
	return false
}

func refIn(v string, l []string) bool {
	for _, x := range l {
		if x == v {
			return true
		}
	}
	return false
}

func refPathMatch(e vEntry, p string) bool {
	if e.Path == "" && e.Prefix == "" && e.Regexp == "" {
		return true
	}
	if e.Path != "" && e.Path == p {
		return true
	}
	if e.Prefix != "" && strings.HasPrefix(p, e.Prefix) {
		return true
	}
	if e.Regexp != "" && regexp.MustCompile(e.Regexp).MatchString(p) {
		return true
	}
	return false
}

func refRewrite(e vEntry, p string) string {
	if e.Rewrite == "" {
		return p
	}
	if e.Path != "" && e.Path == p {
		return e.Rewrite
	}
	if e.Prefix != "" && strings.HasPrefix(p, e.Prefix) {
		return e.Rewrite + p[len(e.Prefix):]
	}
	return regexp.MustCompile(e.Regexp).ReplaceAllString(p, e.Rewrite)
}

// refRoute returns the expected observation. backends = names that exist.
func refRoute(rules []vRule, q vReq, backends map[string]bool) vObs {
	h := refStripPort(q.Host)
	hdr := func(k string) string {
		for _, kv := range q.Hdr {
			if strings.EqualFold(kv[0], k) {
				return kv[1]
			}
		}
		return ""
	}
	hdrMiss, methMiss := false, false
	for _, r := range rules {
		if r.Host != "" || r.HostRegexp != "" {
			ok := r.Host != "" && r.Host == h
			if !ok && r.HostRegexp != "" && regexp.MustCompile(r.HostRegexp).MatchString(h) {
				ok = true
			}
			if !ok {
				continue
			}
		}
		for _, e := range r.Entries {
			if !refPathMatch(e, q.Path) {
				continue
			}
			if len(e.Methods) > 0 && !refIn(q.Method, e.Methods) {
				methMiss = true
				continue
			}
			if len(e.Headers) > 0 && !refHdrOK(e, hdr) {
				hdrMiss = true
				continue
			}
			if !backends[e.Backend] {
				return vObs{Status: 503}
			}
			return vObs{Status: 200, Backend: e.Backend, Path: refRewrite(e, q.Path)}
		}
	}
	switch {
	case hdrMiss:
		return vObs{Status: 400}
	case methMiss:
		return vObs{Status: 405}
	}
	return vObs{Status: 404}
}

