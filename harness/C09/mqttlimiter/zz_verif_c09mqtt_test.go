//go:build verif

//go:debug asynctimerchan=0

package mqttproxy

// C09, MQTT limiter unit — the Limiter of pkg/object/mqttproxy/ratelimiter.go as the broker uses it (connection
// and client-publish limits; timeout 0, never waits), in virtual time.  Every packet sequence up to the bound,
// for every combination of requestRate / bytesRate / timePeriod, against the reference of DESIGN A.4 for
// timeout 0: a packet is admitted iff every configured dimension still has budget, where the packets of a
// period may not exceed requestRate and what the admitted bytes took beyond a period's bytesRate is owed by the
// following periods ("admitted bytes exceed bytesRate by less than one packet").

import (
	"fmt"
	"testing"
	"testing/synctest"
	"time"

	"github.com/megaease/easegress/pkg/zzverif/mc"
)

func TestVerifC09mqtt(t *testing.T) {
	synctest.Test(t, func(t *testing.T) {
		env := mc.GetEnv()
		L := 4
		if env.Thorough() {
			L = 6
		}
		var jobs []mc.Job
		for _, rr := range []int{0, 2} {
			for _, br := range []int{0, 10} {
				for _, tp := range []int{0, 2} {
					rr, br, tp := rr, br, tp
					name := fmt.Sprintf("mqtt-limiter/requestRate%d-bytesRate%d-timePeriod%d", rr, br, tp)
					run := func(c *mc.Ctx) {
						period := time.Second
						if tp > 0 {
							period = time.Duration(tp) * time.Second
						}
						var spec *RateLimit
						if rr != 0 || br != 0 || tp != 0 {
							spec = &RateLimit{RequestRate: rr, BytesRate: br, TimePeriod: tp}
						}
						start := time.Now()
						l := newLimiter(spec)
						gaps := []time.Duration{0, period / 2, period - time.Millisecond, period, 3*period + time.Millisecond}
						sizes := []int{1, 9, 25}
						// reference state
						cur, pkts, debt := 0, 0, 0
						var hist []string
						for i := 0; i < L; i++ {
							g := gaps[c.Choose(len(gaps), "gap")]
							n := sizes[c.Choose(len(sizes), "size")]
							time.Sleep(g)
							p := int(time.Since(start) / period)
							for ; cur < p; cur++ {
								pkts = 0
								debt -= br
								if debt < 0 {
									debt = 0
								}
							}
							want := (rr == 0 || pkts < rr) && (br == 0 || debt < br)
							got := l.acquirePermission(n)
							hist = append(hist, fmt.Sprintf("+%v:%dB->%v", g, n, got))
							if got != want {
								kind := "packet-rejected-although-budget-left"
								if got {
									kind = "packet-admitted-beyond-the-rate"
								}
								c.Failf("mqtt-limiter:"+kind, "requestRate %d bytesRate %d period %v: history %v: packet %d (%d bytes) in period %d admitted=%v, reference %v (packets admitted this period %d, bytes owed %d)",
									rr, br, period, hist, i+1, n, p, got, want, pkts, debt)
							}
							if got {
								pkts++
								debt += n
								c.AddOutcome("admit")
							} else {
								c.AddOutcome("reject")
							}
						}
					}
					jobs = append(jobs, mc.ExploreJob(mc.Options{Job: name, MaxDev: -1}, run))
				}
			}
		}
		mc.RunJobs("C09", jobs)
	})
}
