// Package vnet substitutes for "net" in instrumented files.  Outside verification (InMemory
// false) everything is the real net package; with InMemory set, Listen returns an in-memory
// listener built from channels, so that a goroutine waiting in Accept inside a testing/synctest
// bubble is durably blocked (a real socket would hang synctest.Wait), and Dial hands the server a
// net.Pipe end.
package vnet

import (
	"errors"
	"net"
	"sync"
)

type (
	Conn     = net.Conn
	Listener = net.Listener
	Addr     = net.Addr
	IP       = net.IP
	TCPAddr  = net.TCPAddr
	Error    = net.Error
	OpError  = net.OpError
)

// InMemory switches Listen to in-memory listeners.
var InMemory bool

var (
	mu        sync.Mutex
	listeners = map[string]*MemListener{}
)

// MemListener is an in-memory net.Listener.
type MemListener struct {
	addr   string
	ch     chan net.Conn
	done   chan struct{}
	once   sync.Once
	Closed bool
}

type memAddr string

func (a memAddr) Network() string { return "mem" }
func (a memAddr) String() string  { return string(a) }

func (l *MemListener) Accept() (net.Conn, error) {
	select {
	case c := <-l.ch:
		return c, nil
	case <-l.done:
		return nil, errors.New("vnet: listener closed")
	}
}

func (l *MemListener) Close() error {
	l.once.Do(func() {
		l.Closed = true
		close(l.done)
		mu.Lock()
		if listeners[l.addr] == l {
			delete(listeners, l.addr)
		}
		mu.Unlock()
	})
	return nil
}

func (l *MemListener) Addr() net.Addr { return memAddr(l.addr) }

// Dial connects to the in-memory listener: the server side of a net.Pipe is queued for Accept
// (blocking until accepted or the listener closes), the client side is returned.
func (l *MemListener) Dial() (net.Conn, error) {
	c, s := net.Pipe()
	select {
	case l.ch <- s:
		return c, nil
	case <-l.done:
		return nil, errors.New("vnet: connection refused")
	}
}

// FlakyConn is the server side of an in-memory connection whose writes can be made to fail while reads
// keep blocking (a half-dead link).
type FlakyConn struct {
	net.Conn
	mu         sync.Mutex
	failWrites bool
}

// FailWrites makes every later Write fail.
func (f *FlakyConn) FailWrites() {
	f.mu.Lock()
	f.failWrites = true
	f.mu.Unlock()
}

func (f *FlakyConn) Write(b []byte) (int, error) {
	f.mu.Lock()
	fail := f.failWrites
	f.mu.Unlock()
	if fail {
		return 0, errors.New("vnet: write on a half-dead link")
	}
	return f.Conn.Write(b)
}

// DialFlaky is Dial, but the server gets a FlakyConn, which is also returned to the caller.
func (l *MemListener) DialFlaky() (net.Conn, *FlakyConn, error) {
	c, s := net.Pipe()
	fs := &FlakyConn{Conn: s}
	select {
	case l.ch <- fs:
		return c, fs, nil
	case <-l.done:
		return nil, nil, errors.New("vnet: connection refused")
	}
}

// Lookup finds the in-memory listener bound to addr (e.g. ":1883").
func Lookup(addr string) *MemListener {
	mu.Lock()
	defer mu.Unlock()
	return listeners[addr]
}

func Listen(network, address string) (net.Listener, error) {
	if !InMemory {
		return net.Listen(network, address)
	}
	l := &MemListener{addr: address, ch: make(chan net.Conn), done: make(chan struct{})}
	mu.Lock()
	listeners[address] = l
	mu.Unlock()
	return l, nil
}

func Dial(network, address string) (net.Conn, error) { return net.Dial(network, address) }
func Pipe() (net.Conn, net.Conn)                      { return net.Pipe() }
func ParseIP(s string) net.IP                         { return net.ParseIP(s) }
func SplitHostPort(hp string) (string, string, error) { return net.SplitHostPort(hp) }
func JoinHostPort(h, p string) string                 { return net.JoinHostPort(h, p) }
