//go:build verif

//go:debug asynctimerchan=0

package proxy

// C04, discovery unit — "the tagged instances last reported by service discovery, falling back to the static
// list when none qualifies": every history of registry contents up to the bound is pushed through a REAL
// ServiceRegistry system controller (in-memory registry driver) into a real ServerPool created by NewServerPool
// (ListServiceInstances at creation, then the pool's watch goroutine); after every change, once the bubble is
// quiescent, the set of servers the load balancer hands out must be exactly the qualifying instances of the
// current registry content, or the static list when there is none.

import (
	"fmt"
	"sort"
	"strings"
	"sync"
	"testing"
	"testing/synctest"

	"github.com/megaease/easegress/pkg/object/serviceregistry"
	"github.com/megaease/easegress/pkg/option"
	"github.com/megaease/easegress/pkg/supervisor"
	"github.com/megaease/easegress/pkg/zzverif/mc"
	"github.com/megaease/easegress/pkg/zzverif/vrand"
)

type c04Registry struct {
	mu        sync.Mutex
	instances map[string]*serviceregistry.ServiceInstanceSpec
	notify    chan *serviceregistry.RegistryEvent
}

func (r *c04Registry) Name() string                                   { return "reg" }
func (r *c04Registry) Notify() <-chan *serviceregistry.RegistryEvent { return r.notify }
func (r *c04Registry) ApplyServiceInstances(map[string]*serviceregistry.ServiceInstanceSpec) error {
	return nil
}
func (r *c04Registry) DeleteServiceInstances(map[string]*serviceregistry.ServiceInstanceSpec) error {
	return nil
}
func (r *c04Registry) GetServiceInstance(serviceName, instanceID string) (*serviceregistry.ServiceInstanceSpec, error) {
	return nil, fmt.Errorf("not found")
}
func (r *c04Registry) ListServiceInstances(serviceName string) (map[string]*serviceregistry.ServiceInstanceSpec, error) {
	r.mu.Lock()
	defer r.mu.Unlock()
	out := map[string]*serviceregistry.ServiceInstanceSpec{}
	for k, v := range r.instances {
		if v.ServiceName == serviceName {
			out[k] = v.DeepCopy()
		}
	}
	return out, nil
}
func (r *c04Registry) ListAllServiceInstances() (map[string]*serviceregistry.ServiceInstanceSpec, error) {
	r.mu.Lock()
	defer r.mu.Unlock()
	out := map[string]*serviceregistry.ServiceInstanceSpec{}
	for k, v := range r.instances {
		out[k] = v.DeepCopy()
	}
	return out, nil
}
func (r *c04Registry) set(instances map[string]*serviceregistry.ServiceInstanceSpec) {
	r.mu.Lock()
	old := r.instances
	r.instances = instances
	r.mu.Unlock()
	r.notify <- serviceregistry.NewRegistryEventFromDiff(r.Name(), old, instances)
}

// registry contents: id -> tags [+ weight] ("svc" instances; "x*" belongs to another service)
var c04Contents = []map[string][]string{
	{},
	{"a": {"v2"}},
	{"a": {"v2"}, "b": {"v2"}},
	{"c": {"other"}},
	{"a": {"v2"}, "c": {"other"}},
	{"b": {"v2", "other"}},
	{"xa": {"v2"}},
	{"a": {"v2", "w=3"}, "b": {"v2", "w=0"}},
	{"a": {"v2", "w=0"}, "b": {"v2", "w=3"}},
}

func c04Weight(tags []string) int {
	for _, t := range tags {
		if strings.HasPrefix(t, "w=") {
			n := 0
			fmt.Sscan(t[2:], &n)
			return n
		}
	}
	return 0
}

func c04Instances(content map[string][]string) map[string]*serviceregistry.ServiceInstanceSpec {
	m := map[string]*serviceregistry.ServiceInstanceSpec{}
	for id, tags := range content {
		svc := "svc"
		if strings.HasPrefix(id, "x") {
			svc = "othersvc"
		}
		s := &serviceregistry.ServiceInstanceSpec{RegistryName: "reg", ServiceName: svc, InstanceID: id, Address: id + ".disc", Port: 80, Tags: tags, Weight: c04Weight(tags)}
		m[s.Key()] = s
	}
	return m
}

// c04Expected: the servers the pool may hand out; positiveOnly: only those with a positive weight when there is one
func c04Expected(content map[string][]string, tag string, positiveOnly bool) string {
	if positiveOnly {
		pos := map[string][]string{}
		for id, tags := range content {
			if c04Weight(tags) > 0 && !strings.HasPrefix(id, "x") {
				for _, t := range tags {
					if t == tag {
						pos[id] = tags
					}
				}
			}
		}
		if len(pos) > 0 {
			content = pos
		}
	}
	var urls []string
	for id, tags := range content {
		if strings.HasPrefix(id, "x") {
			continue
		}
		// only instances carrying one of the pool's serverTags qualify: a pool without serverTags selects none
		ok := false
		for _, t := range tags {
			ok = ok || t == tag
		}
		if ok {
			urls = append(urls, "http://"+id+".disc:80")
		}
	}
	if len(urls) == 0 {
		return "http://static:9000"
	}
	sort.Strings(urls)
	return strings.Join(urls, ",")
}

func c04Current(sp *ServerPool) string {
	seen := map[string]bool{}
	for i := 0; i < 8; i++ {
		svr := sp.LoadBalancer().ChooseServer(nil)
		if svr == nil {
			return "<none>"
		}
		seen[svr.URL] = true
	}
	var urls []string
	for u := range seen {
		urls = append(urls, u)
	}
	sort.Strings(urls)
	return strings.Join(urls, ",")
}

func TestVerifC04disc(t *testing.T) {
	synctest.Test(t, func(t *testing.T) {
		env := mc.GetEnv()
		L := 3
		if env.Thorough() {
			L = 4
		}
		run := func(c *mc.Ctx) {
			var systemControllers sync.Map
			boot := supervisor.NewDefaultMock()
			entity, err := boot.NewObjectEntityFromConfig("kind: ServiceRegistry\nname: ServiceRegistry\nsyncInterval: 10s\n")
			if err != nil {
				c.Failf("rig", "service registry: %v", err)
			}
			entity.InitWithRecovery(nil)
			systemControllers.Store(serviceregistry.Kind, entity)
			super := supervisor.NewMock(option.New(), nil, sync.Map{}, systemControllers, nil, nil, false, nil, nil)
			sr := entity.Instance().(*serviceregistry.ServiceRegistry)
			defer sr.Close()
			cur := c.Choose(len(c04Contents), "initial-content")
			reg := &c04Registry{instances: c04Instances(c04Contents[cur]), notify: make(chan *serviceregistry.RegistryEvent, 10)}
			if err := sr.RegisterRegistry(reg); err != nil {
				c.Failf("rig", "register: %v", err)
			}
			synctest.Wait()
			tag := []string{"v2", ""}[c.Choose(2, "serverTags")]
			policy := []string{LoadBalancePolicyRoundRobin, LoadBalancePolicyWeightedRandom}[c.Choose(2, "policy")]
			spec := &ServerPoolSpec{ServiceRegistry: "reg", ServiceName: "svc", Servers: []*Server{{URL: "http://static:9000"}}, LoadBalance: &LoadBalanceSpec{Policy: policy}}
			if tag != "" {
				spec.ServerTags = []string{tag}
			}
			if err := spec.Validate(); err != nil {
				c.Failf("rig", "pool spec rejected: %v", err)
			}
			sp := NewServerPool(&Proxy{super: super}, spec, "pool")
			defer sp.close()
			hist := []int{cur}
			check := func() {
				synctest.Wait()
				if policy == LoadBalancePolicyWeightedRandom {
					// one selection, EVERY answer of the random draw explored (math/rand of loadbalance.go is the
					// explorer's): the pick must be a qualifying instance of the latest content, and one with a
					// positive weight when there is one
					vrand.Set(c)
					svr := sp.LoadBalancer().ChooseServer(nil)
					vrand.Set(nil)
					want := c04Expected(c04Contents[cur], tag, true)
					if svr == nil || !strings.Contains(","+want+",", ","+svr.URL+",") {
						u := "<none>"
						if svr != nil {
							u = svr.URL
						}
						c.Failf("discovery:weighted-pick-outside-latest-report", "serverTags [%s], registry content history %v (latest %v): weightedRandom picked %s, allowed {%s}", tag, hist, c04Contents[cur], u, want)
					}
					return
				}
				got, want := c04Current(sp), c04Expected(c04Contents[cur], tag, false)
				if got != want {
					kind := "stale-or-wrong-instances"
					if want == "http://static:9000" {
						kind = "no-fallback-to-static-list"
					} else if got == "http://static:9000" {
						kind = "static-list-although-instances-qualify"
					}
					c.Failf("discovery:"+kind, "serverTags [%s], registry content history %v (contents %v): the pool hands out {%s}, expected {%s}", tag, hist, c04Contents[cur], got, want)
				}
			}
			check()
			for step := 0; step < L; step++ {
				k := c.Choose(len(c04Contents), "next-content") // the same content again is a legal (empty) change
				if k == len(c04Contents) {
					break
				}
				cur = k
				hist = append(hist, cur)
				reg.set(c04Instances(c04Contents[cur]))
				check()
			}
			c.Outcome(fmt.Sprintf("%s,tag=%s,final=%s", policy, tag, c04Expected(c04Contents[cur], tag, false)))
		}
		mc.RunJobsAll("C04", []mc.Job{{Name: "discovery-histories",
			Run: func(r *mc.Result, env *mc.Env) {
				mc.Explore(r, mc.Options{Job: "discovery-histories", MaxDev: -1, SubShard: env.Shard, SubN: env.NShards, SubDepth: 3, Env: env}, run)
			},
			Replay: func(ch []int) (*mc.Failure, []string) { return mc.ReplayOne(run, ch) }}})
	})
}
