//go:build verif

//go:debug asynctimerchan=0

package httpserver

// C17 (and the run-time part of C11), HTTPServer runtime unit — the REAL runtime (newRuntime, fsm goroutine,
// startServer, http.Server, LimitListener) on an in-memory listener ("net" of runtime.go redirected to vnet) in a
// synctest bubble.  Every history of {client dials, oldest open connection closes, hot update of maxConnections
// to 1/2/3, hot update of the rules} up to the bound; after every event, at quiescence:
//   - the number of accepted open connections equals the reference (a dial is accepted only while fewer than
//     maxConnections are open; shrinking the cap drops nobody; capacity freed by a close or by raising the cap is
//     given to a waiting dial),
//   - every accepted open connection still answers (no established connection is dropped by an update),
//   - every answer comes from the generation of the rules applied last.

import (
	"bufio"
	"fmt"
	"net"
	"net/http"
	"strings"
	"testing"
	"testing/synctest"

	"github.com/megaease/easegress/pkg/context"
	"github.com/megaease/easegress/pkg/protocols/httpprot"
	"github.com/megaease/easegress/pkg/zzverif/mc"
	"github.com/megaease/easegress/pkg/zzverif/vnet"
)

type rtMapper struct{}

type rtHandler struct{ name string }

func (h rtHandler) Handle(ctx *context.Context) string {
	resp, _ := httpprot.NewResponse(nil)
	resp.SetStatusCode(200)
	resp.HTTPHeader().Set("X-Backend", h.name)
	ctx.SetOutputResponse(resp)
	return ""
}

func (rtMapper) GetHandler(name string) (context.Handler, bool) { return rtHandler{name}, true }

func rtSpec(maxConn int, gen string) string {
	return fmt.Sprintf("kind: HTTPServer\nname: srv\nport: 18099\nkeepAlive: true\nkeepAliveTimeout: 1h\nhttps: false\nmaxConnections: %d\nrules:\n- paths:\n  - pathPrefix: /\n    backend: backend-%s\n", maxConn, gen)
}

type rtConn struct {
	c        net.Conn
	br       *bufio.Reader
	accepted bool
	closed   bool
	done     chan struct{}
}

func TestVerifC17rt(t *testing.T) {
	synctest.Test(t, func(t *testing.T) {
		env := mc.GetEnv()
		L := 5
		if env.Thorough() {
			L = 7
		}
		vnet.InMemory = true
		events := []string{"dial", "close-oldest", "maxConnections=1", "maxConnections=2", "maxConnections=3", "rules-updated"}
		run := func(c *mc.Ctx) {
			capNow := 1 + c.Choose(2, "initial-maxConnections")
			gen := 0
			genName := func() string { return fmt.Sprint("g", gen) }
			ss, err := vNewSpec(rtSpec(capNow, genName()))
			if err != nil {
				c.Failf("spec-rejected", "%v", err)
			}
			rt := newRuntime(ss, rtMapper{})
			rt.eventChan <- &eventReload{nextSuperSpec: ss, muxMapper: rtMapper{}}
			synctest.Wait()
			defer func() {
				rt.Close()
				synctest.Wait()
			}()
			l := vnet.Lookup(":18099")
			if l == nil {
				c.Failf("server-not-listening", "state %v error %v", rt.getState(), rt.getError())
			}
			var conns []*rtConn
			var hist []string
			accepted, waiting := 0, 0 // reference
			// A cap change is applied asynchronously (pkg/util/sem): a shrink that finds its permits in use (by open
			// connections or by the accept loop's own pre-acquired permit) stays pending until connections close, and
			// later changes queue behind it.  "Once the change has been applied" is then not yet true; the exact
			// behaviour in that window is explored by the limitlistener unit.  Here the count clause is checked
			// while every change so far applied at once, the other two clauses always.
			inTransition := false
			settle := func() {
				for waiting > 0 && accepted < capNow {
					accepted++
					waiting--
				}
			}
			check := func(after string) {
				synctest.Wait()
				got := 0
				for i, k := range conns {
					if !k.accepted {
						select {
						case <-k.done:
							k.accepted = k.c != nil
							if k.c == nil {
								c.Failf("dial-refused", "history %v: connection #%d was refused", hist, i)
							}
						default:
						}
					}
					if k.accepted && !k.closed {
						got++
					}
				}
				if got != accepted && !inTransition {
					kind := "more-connections-accepted-than-maxConnections-allows"
					if got < accepted {
						kind = "free-capacity-not-given-to-a-waiting-connection"
					}
					c.Failf("http-cap:"+kind+":after-"+after, "history %v: %d accepted open connections, reference %d (maxConnections now %d, %d dials waiting in the reference)", hist, got, accepted, capNow, waiting)
				}
				// every established connection still works and sees the latest rules
				for i, k := range conns {
					if !k.accepted || k.closed {
						continue
					}
					errc := make(chan error, 1)
					go func() {
						_, err := fmt.Fprintf(k.c, "GET /x HTTP/1.1\r\nHost: h\r\n\r\n")
						errc <- err
					}()
					synctest.Wait()
					var resp *http.Response
					rc := make(chan error, 1)
					go func() {
						var err error
						resp, err = http.ReadResponse(k.br, nil)
						if err == nil {
							resp.Body.Close()
						}
						rc <- err
					}()
					synctest.Wait()
					var rerr error
					select {
					case rerr = <-rc:
					default:
						rerr = fmt.Errorf("no response")
					}
					if rerr != nil || resp.StatusCode != 200 {
						st := 0
						if resp != nil {
							st = resp.StatusCode
						}
						c.Failf("established-connection-dropped:after-"+after, "history %v: accepted connection #%d no longer answers (error %v, status %d)", hist, i, rerr, st)
					}
					if b := resp.Header.Get("X-Backend"); b != "backend-"+genName() {
						c.Failf("request-after-update-sees-old-rules:after-"+after, "history %v: connection #%d answered by %q, the rules applied last route to %q", hist, i, b, "backend-"+genName())
					}
				}
			}
			check("start")
			for step := 0; step < L; step++ {
				var en []string
				for _, e := range events {
					ok := true
					switch e {
					case "dial":
						ok = len(conns) < 4
					case "close-oldest":
						ok = accepted > 0
					case "maxConnections=1", "maxConnections=2", "maxConnections=3":
						ok = !strings.HasSuffix(e, fmt.Sprint("=", capNow))
					}
					if ok {
						en = append(en, e)
					}
				}
				e := en[c.Choose(len(en), "event")]
				hist = append(hist, e)
				c.Note("%s", e)
				switch e {
				case "dial":
					k := &rtConn{done: make(chan struct{})}
					conns = append(conns, k)
					go func() {
						conn, err := l.Dial()
						if err == nil {
							k.c, k.br = conn, bufio.NewReader(conn)
						}
						close(k.done)
					}()
					waiting++
				case "close-oldest":
					for _, k := range conns {
						if k.accepted && !k.closed {
							k.c.Close()
							k.closed = true
							break
						}
					}
					accepted--
				case "rules-updated":
					gen++
					ss, err := vNewSpec(rtSpec(capNow, genName()))
					if err != nil {
						c.Failf("spec-rejected", "%v", err)
					}
					rt.eventChan <- &eventReload{nextSuperSpec: ss, muxMapper: rtMapper{}}
				default:
					old := capNow
					fmt.Sscanf(e, "maxConnections=%d", &capNow)
					if capNow < old && accepted+1 > capNow {
						inTransition = true
					}
					ss, err := vNewSpec(rtSpec(capNow, genName()))
					if err != nil {
						c.Failf("spec-rejected", "%v", err)
					}
					rt.eventChan <- &eventReload{nextSuperSpec: ss, muxMapper: rtMapper{}}
				}
				settle()
				check(e)
			}
			for _, k := range conns {
				if k.c != nil && !k.closed {
					k.c.Close()
				}
			}
			c.Outcome(fmt.Sprintf("last=%s accepted=%d waiting=%d cap=%d transition=%v", hist[len(hist)-1], accepted, waiting, capNow, inTransition))
		}
		mc.RunJobsAll("C17", []mc.Job{{Name: "http-runtime-histories",
			Run: func(r *mc.Result, env *mc.Env) {
				mc.Explore(r, mc.Options{Job: "http-runtime-histories", MaxDev: -1, SubShard: env.Shard, SubN: env.NShards, SubDepth: 3, Env: env}, run)
			},
			Replay: func(ch []int) (*mc.Failure, []string) { return mc.ReplayOne(run, ch) }}})
	})
}
