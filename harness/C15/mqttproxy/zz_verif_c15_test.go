//go:build verif

//go:debug asynctimerchan=0

package mqttproxy

// C15 — MQTT delivery on the real broker: every population of 2-3 subscribers x subscription QoS x
// message QoS x EVERY visiting order of the subscriber map (explorer choice at the rewritten range
// in sendMsgToClient) x PUBACK behaviours, run to quiescence on the virtual clock.

import (
	"fmt"
	"testing"
	"testing/synctest"
	"time"

	"github.com/eclipse/paho.mqtt.golang/packets"
	"github.com/megaease/easegress/pkg/zzverif/mc"
	"github.com/megaease/easegress/pkg/zzverif/vrt"
)

const c15Resend = 200 * time.Millisecond

func TestVerifC15(t *testing.T) {
	synctest.Test(t, func(t *testing.T) {
		// topic t/u; "t" (a level-prefix of the other filters) and "x" do not match it
		filters := []string{"t/u", "t/+", "#", "t/u/#", "t", "x"} // t/u/# matches its parent level t/u
		matches := func(f string) bool { return f != "x" && f != "t" }
		var jobs []mc.Job

		// ---- job 1: HTTP publish reaches every eligible subscriber whatever the visiting order ----
		deliver := func(n int) func(c *mc.Ctx) {
			return func(c *mc.Ctx) {
				defer vrt.SetOrderChooser(nil)
				vb := vNewBroker(&Spec{})
				defer vb.close()
				type sub struct {
					cl     *vClient
					filter string
					qos    byte
				}
				var subs []sub
				var c0filters []string
				for i := 0; i < n; i++ {
					f := filters[c.Choose(len(filters), fmt.Sprintf("filter%d", i))]
					q := byte(c.Choose(2, fmt.Sprintf("subqos%d", i)))
					cl := vb.connect(fmt.Sprintf("c%d", i), true)
					if cl.connack != packets.Accepted {
						c.Failf("connect-refused", "client c%d: CONNACK %d", i, cl.connack)
					}
					cl.autoAck = true
					if !cl.subscribe(f, q) {
						c.Failf("subscribe-not-acked", "client c%d subscribe %s", i, f)
					}
					if i == 0 {
						c0filters = []string{f}
					}
					// a client may hold a second, overlapping subscription with the other QoS: it is eligible through
					// whichever of its matching subscriptions has QoS >= q
					if i == 0 && n == 2 {
						if k := c.Choose(len(filters)+1, "second-filter0"); k > 0 && filters[k-1] != f {
							f2, q2 := filters[k-1], 1-q
							if !cl.subscribe(f2, q2) {
								c.Failf("subscribe-not-acked", "client c%d subscribe %s", i, f2)
							}
							c.Note("c%d also subscribes %q qos%d", i, f2, q2)
							c0filters = append(c0filters, f2)
							if matches(f2) && (!matches(f) || q2 > q) {
								f, q = f2, q2 // the subscription that makes it eligible for more
							}
						}
					}
					cl.take()
					subs = append(subs, sub{cl, f, q})
					c.Note("c%d subscribes %q qos%d", i, f, q)
				}
				// the first client may leave before the message is published (UNSUBSCRIBE of all its filters, or its
				// connection drops): what the others get must not depend on it
				switch c.Choose(3, "c0-leaves") {
				case 1:
					p := packets.NewControlPacket(packets.Unsubscribe).(*packets.UnsubscribePacket)
					p.MessageID, p.Topics = 99, c0filters
					subs[0].cl.send(p)
					synctest.Wait()
					subs[0].cl.take()
					subs[0].filter = "x"
					c.Note("c0 unsubscribes %v", c0filters)
				case 2:
					subs[0].cl.drop()
					subs[0].filter = "x"
					c.Note("c0's connection drops")
				}
				mq := c.Choose(2, "msgqos")
				vrt.SetOrderChooser(c)
				if code := vb.httpPublish("t/u", mq, "hello"); code != 200 {
					c.Failf("http-publish-status", "HTTP publish answered %d", code)
				}
				vrt.SetOrderChooser(nil)
				for i, s := range subs {
					pubs := publishesOf(s.cl.take())
					got := len(pubs)
					for _, p := range pubs {
						if p.TopicName != "t/u" || string(p.Payload) != "hello" || int(p.Qos) != mq {
							c.Failf("delivered-message-altered", "message on t/u at QoS %d payload hello: client c%d received topic %q payload %q QoS %d packet id %d", mq, i, p.TopicName, p.Payload, p.Qos, p.MessageID)
						}
					}
					eligible := matches(s.filter) && int(s.qos) >= mq
					c.Note("c%d eligible=%v received=%d", i, eligible, got)
					switch {
					case eligible && got == 0:
						lower := false
						for _, o := range subs {
							if matches(o.filter) && int(o.qos) < mq {
								lower = true
							}
						}
						key := "eligible-subscriber-missed"
						if lower {
							key += ":another-subscriber-has-lower-qos"
						}
						c.Failf(key, "message on t/u at QoS %d: client c%d (filter %q, QoS %d) is eligible but received nothing; population %v", mq, i, s.filter, s.qos, descSubs(n, subs2desc(subs)))
					case !eligible && got > 0 && !matches(s.filter):
						c.Failf("non-matching-subscriber-received", "client c%d (filter %q) received the message", i, s.filter)
					}
				}
				c.Outcome(fmt.Sprintf("msgqos%d", mq))
			}
		}
		jobs = append(jobs, mc.ExploreJob(mc.Options{Job: "deliver/2-subscribers", MaxDev: -1}, deliver(2)))
		jobs = append(jobs, mc.ExploreJob(mc.Options{Job: "deliver/3-subscribers", MaxDev: -1}, deliver(3)))

		// ---- job 2: QoS1 retransmission until PUBACK, not afterwards; PUBACKs may come for any subset, in any order ----
		resend := func(c *mc.Ctx) {
			vb := vNewBroker(&Spec{})
			defer vb.close()
			// the subscriber is on a fresh clean session, or continues a persistent session that the broker restores
			// from its store (it connected with cleanSession=false, subscribed, lost its link and reconnected)
			var cl *vClient
			if c.Choose(2, "subscriber-continues-a-stored-session") == 1 {
				first := vb.connect("c0", false)
				first.subscribe("t", 1)
				first.drop()
				cl = vb.connect("c0", false)
			} else {
				cl = vb.connect("c0", true)
				cl.subscribe("t", 1)
			}
			cl.take()
			nmsg := 1 + c.Choose(3, "messages")
			for m := 0; m < nmsg; m++ {
				vb.httpPublish("t", 1, fmt.Sprintf("m%d", m))
			}
			first := publishesOf(cl.take())
			if len(first) != nmsg {
				c.Failf("qos1-not-delivered", "%d QoS1 messages published, %d received at once", nmsg, len(first))
			}
			acked := map[uint16]bool{}
			// in every period (0 = at once) the client may acknowledge any one of the still unacknowledged messages, or none
			for period := 0; period <= 5; period++ {
				if period > 0 {
					time.Sleep(c15Resend)
					synctest.Wait()
					got := publishesOf(cl.take())
					var oldest *packets.PublishPacket
					for _, p := range first {
						if !acked[p.MessageID] {
							oldest = p
							break
						}
					}
					seenOldest := false
					for _, p := range got {
						for _, o := range first {
							if o.MessageID == p.MessageID && (o.TopicName != p.TopicName || string(o.Payload) != string(p.Payload) || p.Qos != 1) {
								c.Failf("retransmission-differs-from-original", "period %d: packet id %d first sent as topic %q payload %q, retransmitted as topic %q payload %q QoS %d", period, p.MessageID, o.TopicName, o.Payload, p.TopicName, p.Payload, p.Qos)
							}
						}
						if acked[p.MessageID] {
							c.Failf("retransmitted-after-puback", "period %d: packet id %d retransmitted after its PUBACK (acked %v)", period, p.MessageID, acked)
						}
						if oldest != nil && p.MessageID == oldest.MessageID {
							seenOldest = true
						}
					}
					c.Note("period %d: acked=%v retransmissions=%d", period, acked, len(got))
					if oldest != nil && !seenOldest {
						inOrder := "acks-in-order"
						for _, p := range first {
							if p.MessageID > oldest.MessageID && acked[p.MessageID] {
								inOrder = "later-message-acked-first"
							}
						}
						c.Failf("unacked-oldest-not-retransmitted:"+inOrder, "period %d: the oldest unacknowledged packet id %d was not retransmitted (acked so far %v, %d packets received)", period, oldest.MessageID, acked, len(got))
					}
				}
				if period <= 3 {
					k := c.Choose(nmsg+1, "ack-which")
					if k > 0 && !acked[first[k-1].MessageID] {
						cl.puback(first[k-1].MessageID)
						acked[first[k-1].MessageID] = true
					}
				}
			}
			c.Outcome(fmt.Sprintf("msgs%d-acked%d", nmsg, len(acked)))
		}
		jobs = append(jobs, mc.ExploreJob(mc.Options{Job: "qos1-resend", MaxDev: -1}, resend))

		// ---- job 3: QoS0 burst to a client that does not read: only drops, never a stall; others unaffected ----
		burst := func(c *mc.Ctx) {
			vb := vNewBroker(&Spec{})
			defer vb.close()
			slow := vb.dial("slow")
			p := packets.NewControlPacket(packets.Connect).(*packets.ConnectPacket)
			p.ClientIdentifier, p.CleanSession, p.ProtocolName, p.ProtocolVersion = "slow", true, "MQTT", 4
			slow.startReading()
			slow.send(p)
			synctest.Wait()
			slow.subscribe("t", 0)
			ok := vb.connect("ok", true)
			ok.subscribe("t", 0)
			ok.take()
			n := []int{10, 60, 120}[c.Choose(3, "burst")]
			// from now on "slow" stops reading its connection
			slow.stopReading()
			slow.take()
			vb.b.RLock()
			qcap := cap(vb.b.clients["slow"].writeCh)
			vb.b.RUnlock()
			for i := 0; i < n; i++ {
				vb.httpPublish("t", 0, fmt.Sprintf("b%d", i))
			}
			got := len(publishesOf(ok.take()))
			if got != n {
				c.Failf("qos0-lost-for-healthy-client", "burst of %d QoS0 messages while another subscriber does not read: healthy reading client received %d", n, got)
			}
			// a QoS0 copy may be dropped only when the client's outbound queue is full: what fits the queue arrives, in order
			slow.resumeReading()
			var payloads []string
			for _, p := range publishesOf(slow.take()) {
				payloads = append(payloads, string(p.Payload))
			}
			keep := n
			if qcap < keep {
				keep = qcap
			}
			for i := 0; i < keep; i++ {
				if i >= len(payloads) || payloads[i] != fmt.Sprintf("b%d", i) {
					c.Failf("qos0-dropped-although-queue-not-full", "burst of %d QoS0 messages to a client that reads late (queue capacity %d): expected the first %d in order, received %d: %v", n, qcap, keep, len(payloads), payloads)
				}
			}
			c.Outcome(fmt.Sprintf("burst%d", n))
		}
		jobs = append(jobs, mc.ExploreJob(mc.Options{Job: "qos0-burst", MaxDev: -1}, burst))

		// ---- job 4: client QoS1 PUBLISH -> backend pipeline + PUBACK with the same id; limiter / drop ----
		clientPub := func(c *mc.Ctx) {
			limited := c.Choose(2, "publish-limiter") == 1
			spec := &Spec{}
			if limited {
				spec.ClientPublishLimit = &RateLimit{RequestRate: 1, TimePeriod: 1}
			}
			vb := vNewBroker(spec)
			defer vb.close()
			dropSecond := c.Choose(2, "pipeline-drops-second") == 1
			vb.drop = func(p *packets.PublishPacket) bool { return dropSecond && p.MessageID == 11 }
			cl := vb.connect("c0", true)
			cl.take()
			ids := []uint16{10, 11, 12}
			gap := []time.Duration{0, time.Second}[c.Choose(2, "gap")]
			// the client either reads its PUBACKs as they come or only after it has sent all three publishes
			late := c.Choose(2, "client-reads-after-the-burst") == 1
			if late {
				cl.stopReading()
			}
			for _, id := range ids {
				cl.publish("up", 1, id)
				time.Sleep(gap)
				synctest.Wait()
			}
			if late {
				cl.resumeReading()
			}
			acks := map[uint16]int{}
			for _, r := range cl.take() {
				if a, ok := r.(*packets.PubackPacket); ok {
					acks[a.MessageID]++
				}
			}
			handed := map[uint16]bool{}
			for _, pb := range vb.pubs {
				handed[pb.id] = true
			}
			c.Note("limited=%v dropSecond=%v gap=%v handed=%v acks=%v", limited, dropSecond, gap, handed, acks)
			for _, id := range ids {
				if !limited && !handed[id] {
					c.Failf("publish-not-handed-to-pipeline", "QoS1 PUBLISH id %d (no limiter) never reached the backend pipeline", id)
				}
				passed := handed[id] && !(dropSecond && id == 11)
				if passed && acks[id] != 1 {
					c.Failf("publish-not-acknowledged", "QoS1 PUBLISH id %d passed limiter and pipeline but got %d PUBACKs", id, acks[id])
				}
				if !handed[id] && acks[id] > 0 {
					c.Failf("puback-without-pipeline", "PUBLISH id %d was acknowledged although the pipeline never saw it", id)
				}
			}
			if limited && gap == 0 && len(handed) > 1 {
				c.Failf("publish-limiter-not-applied", "limiter 1 per second, 3 publishes at once: %d reached the pipeline", len(handed))
			}
			if limited && gap > 0 && len(handed) != 3 {
				c.Failf("publish-limiter-too-strict", "limiter 1 per second, publishes 1 s apart: only %d reached the pipeline", len(handed))
			}
			for id := range acks {
				ok := false
				for _, x := range ids {
					ok = ok || x == id
				}
				if !ok {
					c.Failf("puback-with-foreign-id", "PUBACK id %d does not belong to any PUBLISH", id)
				}
			}
			c.Outcome(fmt.Sprintf("limited%v-handed%d", limited, len(handed)))
		}
		jobs = append(jobs, mc.ExploreJob(mc.Options{Job: "client-publish", MaxDev: -1}, clientPub))

		mc.RunJobs("C15", jobs)
	})
}

func subs2desc(subs interface{}) string { return fmt.Sprintf("%+v", subs) }
func descSubs(n int, s string) string   { return s }
