"""Check table for vcheck: one entry per claimed property."""

CHECKS = {}
NOT_APPLICABLE = {}

CHECKS["C08"] = {
    "level": "model_checking",
    "technique": "explicit-state model checking (BFS over canonical states of the real object, lock-step reference automaton)",
    "level_text": "every operation sequence up to the depth bound over the real CircuitBreaker, deduplicated by canonical state, "
                  "agrees step by step with a reference automaton written from the property statement; concurrency part: all schedules of 3 callers",
    "level_note": "bounded depth and alphabet (12 policies, 4 clock increments); clock owned through nowFunc; canonicalisation argument in DESIGN §3 C08",
    "rule": "explicit-state BFS over operation sequences {acquire, record(pending token k, success|failure|slow), tick(d)} "
            "on the real CircuitBreaker for 12 policies, lock-step against the reference automaton (DESIGN A.3); a state is the "
            "canonical dump of the breaker's private fields + pending tokens; distinct_nontrivial counts distinct "
            "(operation outcome) classes observed, e.g. record-failure-in-HalfOpen->Open",
    "explanation": "states = distinct canonical states of the real object reached; transitions = operations applied to a fresh real "
                   "object (each after replaying the shortest path to its source state); every transition is compared with the reference.",
    "bounds": {"quick": "depth 8, <=3 pending tokens, 12 policies", "thorough": "depth 11, <=3 pending tokens, 12 policies"},
    "assumptions": ["clock read only through circuitbreaker.nowFunc (harness-owned)",
                    "canonical state covers every field AcquirePermission/RecordResult read"],
    "units": [
        {"name": "circuitbreaker", "pkg": "pkg/util/circuitbreaker", "test": "TestVerifC08", "workers": 12},
    ],
}
