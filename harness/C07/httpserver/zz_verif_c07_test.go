//go:build verif

package httpserver

// C07 — body limits in both directions over real sockets: the full product of limit settings at
// path/server (requests) and pool/proxy (responses) level x body sizes around the limit x encodings
// (length-declared, chunked, lying Content-Length).

import (
	"strings"
	"bytes"
	"fmt"
	"testing"

	"github.com/megaease/easegress/pkg/zzverif/mc"
)

const c07L = 1000
const c07Default = 4 * 1024 * 1024

var (
	c07Backend *lbBackend
	c07Fronts  = map[string]*lbFront{}
	c07Seq     int
)

func c07Front(pathL, serverL, poolL, proxyL int, compress ...bool) (*lbFront, error) {
	key := fmt.Sprint(pathL, serverL, poolL, proxyL, compress)
	if f, ok := c07Fronts[key]; ok {
		return f, nil
	}
	pipe := fmt.Sprintf("name: pipe\nkind: Pipeline\nfilters:\n- name: proxy\n  kind: Proxy\n  serverMaxBodySize: %d\n  pools:\n  - servers:\n    - url: http://127.0.0.1:%d\n    serverMaxBodySize: %d\n", proxyL, c07Backend.port(), poolL)
	if len(compress) > 0 && compress[0] {
		pipe = strings.Replace(pipe, "  pools:\n", "  compression:\n    minLength: 1\n  pools:\n", 1)
	}
	server := fmt.Sprintf("kind: HTTPServer\nname: front\nport: 18080\nkeepAlive: true\nhttps: false\nclientMaxBodySize: %d\nrules:\n- paths:\n  - pathPrefix: /\n    backend: pipe\n    clientMaxBodySize: %d\n", serverL, pathL)
	f, err := newLBFront(server, pipe)
	if err != nil {
		return nil, err
	}
	c07Fronts[key] = f
	return f, nil
}

func effective(inner, outer int) int {
	e := inner
	if e == 0 {
		e = outer
	}
	if e == 0 {
		e = c07Default
	}
	return e // negative: unlimited
}

func TestVerifC07(t *testing.T) {
	env := mc.GetEnv()
	c07Backend = newLBBackend()
	limits := []int{0, c07L, -1}
	encs := []string{"content-length", "chunked", "lying-content-length"}
	var res *mc.Result
	mk := func(dir string, big bool) func(c *mc.Ctx) {
		return func(c *mc.Ctx) {
			inner := limits[c.Choose(3, "inner-limit")]
			outer := limits[c.Choose(3, "outer-limit")]
			if big {
				inner, outer = 0, 0
			}
			E := effective(inner, outer)
			base := c07L
			if big {
				base = c07Default
			}
			sizes := []int{base - 1, base, base + 1, 10 * base}
			if big {
				sizes = sizes[:3]
			}
			size := sizes[c.Choose(len(sizes), "size")]
			enc := encs[c.Choose(len(encs), "encoding")]
			// response direction: the Proxy may also compress what it forwards (client accepts gzip)
			compress := dir == "response" && c.Choose(2, "proxy-compression") == 1
			if !c.Mine() {
				return
			}
			var front *lbFront
			var err error
			if dir == "request" {
				front, err = c07Front(inner, outer, 0, 0)
			} else {
				front, err = c07Front(0, 0, inner, outer, compress)
			}
			if err != nil {
				c.Failf("config-rejected", "%v", err)
			}
			c07Seq++
			id := fmt.Sprintf("c%d-%d", env.Shard, c07Seq)
			body := pattern(size)
			q := lbReq{method: "POST", target: "/p", host: "front.example", hdr: [][2]string{{"X-Verif-Case", id}, {"Connection", "close"}}}
			sc := lbScript{status: 200, body: []byte("ok")}
			if dir == "request" {
				q.body = body
				q.chunked = enc == "chunked"
				if enc == "lying-content-length" {
					q.lieExtra = 1
				}
			} else {
				q.method = "GET"
				if compress {
					q.hdr = append(q.hdr, [2]string{"Accept-Encoding", "gzip"})
				}
				sc.body = body
				sc.chunked = enc == "chunked"
				if enc == "lying-content-length" {
					sc.lieExtra = 1
				}
			}
			kase := &lbCase{script: sc}
			c07Backend.mu.Lock()
			c07Backend.cases[id] = kase
			c07Backend.mu.Unlock()
			defer func() {
				c07Backend.mu.Lock()
				delete(c07Backend.cases, id)
				c07Backend.mu.Unlock()
			}()
			resp := lbDo(front.l.Addr().String(), q)
			c07Backend.mu.Lock()
			seen := append([]lbSeen{}, kase.seen...)
			c07Backend.mu.Unlock()
			unlimited := E < 0
			over := !unlimited && size > E
			lim := fmt.Sprintf("inner=%d,outer=%d", inner, outer)
			cls := fmt.Sprintf("%s:%s:size=%s:%s", dir, enc, sizeClass(size, E, unlimited), limClass(inner, outer))
			if compress {
				cls += ":proxy-compression"
			}
			desc := fmt.Sprintf("%s direction, limits %s (effective %d), body %d bytes, %s\nclient got: status %d framing %s (%s) declared CL %d body %d bytes, io error %v; backend called %d times", dir, lim, E, size, enc, resp.status, resp.framing, resp.framingErr, resp.declaredCL, len(resp.body), resp.ioErr, len(seen))
			c.Note("%s", desc)
			if dir == "request" {
				switch {
				case enc == "lying-content-length":
					// fewer bytes than declared: an error status, never a success with a truncated body
					if resp.ioErr == nil && resp.status < 400 {
						c.Failf("truncated-request-accepted:"+cls, "%s", desc)
					}
					for _, s := range seen {
						if s.bodyErr == nil && len(s.body) == size && resp.status == 200 {
							c.Failf("truncated-request-forwarded-as-complete:"+cls, "%s", desc)
						}
					}
				case over:
					if resp.status != 413 {
						c.Failf("oversized-request-not-413:"+cls, "%s", desc)
					}
					if len(seen) != 0 {
						c.Failf("oversized-request-reached-backend:"+cls, "%s", desc)
					}
				default:
					if resp.status != 200 || len(seen) != 1 || !bytes.Equal(seen[0].body, body) {
						got := -1
						if len(seen) > 0 {
							got = len(seen[0].body)
						}
						c.Failf("request-within-limit-not-forwarded-intact:"+cls, "backend got %d bytes\n%s", got, desc)
					}
				}
			} else {
				switch {
				case enc == "lying-content-length":
					// buffered: the proxy has read the whole (short) body before it answers, so it must answer with an
					// error status.  streamed (-1): the status line is already out, the client must at least see
					// that the framing is broken.
					visiblyBroken := resp.framingErr != ""
					if compress && !visiblyBroken {
						// the proxy re-frames what it compresses (chunked): the cut then shows in the gzip stream
						if _, err := logical(resp.body, resp.hdr); err != nil {
							visiblyBroken = true
						}
					}
					if resp.ioErr == nil && resp.status < 400 && (!unlimited || !visiblyBroken) {
						c.Failf("truncated-response-delivered-as-success:"+cls, "%s", desc)
					}
				case over:
					if resp.status < 500 || len(resp.body) > 0 && bytes.Contains(body, resp.body[:min(len(resp.body), 64)]) {
						c.Failf("oversized-response-delivered:"+cls, "%s", desc)
					}
				default:
					got := resp.body
					if compress && resp.status == 200 {
						if dec, err := logical(resp.body, resp.hdr); err == nil {
							got = dec
						}
					}
					if resp.status != 200 || resp.framingErr != "" || !bytes.Equal(got, body) {
						c.Failf("response-within-limit-not-delivered-intact:"+cls, "%s", desc)
					}
				}
			}
			if res != nil {
				res.Count(dir+"-cases", 1)
			}
			c.Outcome(fmt.Sprintf("%s/%d", dir, resp.status))
		}
	}
	var jobs []mc.Job
	add := func(name, dir string, big bool) {
		run := mk(dir, big)
		jobs = append(jobs, mc.Job{Name: name,
			Run: func(r *mc.Result, env *mc.Env) {
				res = r
				mc.Explore(r, mc.Options{Job: name, MaxDev: -1, SubShard: env.Shard, SubN: env.NShards, SubDepth: 4, Env: env}, run)
			},
			Replay: func(ch []int) (*mc.Failure, []string) { return mc.ReplayOne(run, ch) }})
	}
	add("request-limits", "request", false)
	add("response-limits", "response", false)
	if env.Thorough() {
		add("request-default-4MB", "request", true)
		add("response-default-4MB", "response", true)
	}
	mc.RunJobsAll("C07", jobs)
}

func sizeClass(size, E int, unlimited bool) string {
	switch {
	case unlimited:
		return "any(unlimited)"
	case size < E:
		return "below"
	case size == E:
		return "at-limit"
	case size == E+1:
		return "limit+1"
	}
	return "far-above"
}

func limClass(inner, outer int) string {
	n := func(v int) string {
		switch {
		case v == 0:
			return "unset"
		case v < 0:
			return "stream"
		}
		return "set"
	}
	return "inner-" + n(inner) + ",outer-" + n(outer)
}

func min(a, b int) int {
	if a < b {
		return a
	}
	return b
}
