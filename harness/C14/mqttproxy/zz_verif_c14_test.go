//go:build verif

package mqttproxy

// C14 — explicit-state search over subscribe / unsubscribe / disconnect / reconnect histories
// driven through the real Client.processPacket and closeAndDelSession; after every operation
// all 39 topic names are routed by the real TopicManager and compared with MQTT 3.1.1 matching
// over the reference's live subscription set (DESIGN A.5), plus a structural "no residue" check.

import (
	"os"
	"runtime"
	"runtime/pprof"
	"fmt"
	"sort"
	"strings"
	"testing"

	"github.com/eclipse/paho.mqtt.golang/packets"
	"github.com/megaease/easegress/pkg/logger"
	"github.com/megaease/easegress/pkg/zzverif/mc"
	"github.com/megaease/easegress/pkg/zzverif/vrt"
)

func init() { logger.InitNop() }

var (
	c14Clients   = []string{"c1", "c2"}
	c14Filters   = []string{"a", "a/b", "a/+", "+/b", "+", "#", "a/#", "/a", "a//b", "+/+"}
	c14Malformed = []string{"a/#/b", "a+", "#/a", "a/b#"}
)

func c14Topics() []string {
	lv := []string{"a", "b", ""}
	var ts []string
	for _, x := range lv {
		ts = append(ts, x)
		for _, y := range lv {
			ts = append(ts, x+"/"+y)
			for _, z := range lv {
				ts = append(ts, x+"/"+y+"/"+z)
			}
		}
	}
	// the empty string is not a topic name
	out := ts[:0]
	for _, t := range ts {
		if t != "" {
			out = append(out, t)
		}
	}
	return out
}

// refMatch: MQTT 3.1.1 section 4.7 on '/'-split levels.
func refMatch(filter, topic string) bool {
	f := strings.Split(filter, "/")
	t := strings.Split(topic, "/")
	for i, fl := range f {
		if fl == "#" {
			return true // matches the remaining levels, including none (parent level)
		}
		if i >= len(t) {
			return false
		}
		if fl != "+" && fl != t[i] {
			return false
		}
	}
	return len(f) == len(t)
}

func refWellFormed(filter string) bool {
	if filter == "" {
		return false
	}
	ls := strings.Split(filter, "/")
	for i, l := range ls {
		if strings.Contains(l, "#") && (l != "#" || i != len(ls)-1) {
			return false
		}
		if strings.Contains(l, "+") && l != "+" {
			return false
		}
	}
	return true
}

type c14Op struct {
	kind   string // sub, unsub, submix, unsubmix, disconnect, connect
	client int
	filter string
	bad    string
	qos    byte
}

func (o c14Op) String() string {
	c := c14Clients[o.client]
	switch o.kind {
	case "sub":
		return fmt.Sprintf("%s SUBSCRIBE [%s] qos%d", c, o.filter, o.qos)
	case "submix":
		return fmt.Sprintf("%s SUBSCRIBE [%s, %s] qos%d", c, o.filter, o.bad, o.qos)
	case "unsub":
		return fmt.Sprintf("%s UNSUBSCRIBE [%s]", c, o.filter)
	case "unsubmix":
		return fmt.Sprintf("%s UNSUBSCRIBE [%s, %s]", c, o.bad, o.filter)
	}
	return c + " " + o.kind
}

func c14Ops() []c14Op {
	var ops []c14Op
	for ci := range c14Clients {
		for _, f := range c14Filters {
			ops = append(ops, c14Op{kind: "sub", client: ci, filter: f, qos: 0}, c14Op{kind: "sub", client: ci, filter: f, qos: 1},
				c14Op{kind: "unsub", client: ci, filter: f})
		}
		for _, f := range c14Malformed {
			ops = append(ops, c14Op{kind: "sub", client: ci, filter: f, qos: 1})
		}
		ops = append(ops,
			c14Op{kind: "submix", client: ci, filter: "a/b", bad: "a/#/b", qos: 1},
			c14Op{kind: "unsubmix", client: ci, filter: "a/+", bad: "a+"},
			c14Op{kind: "unsub", client: ci, filter: "a/#/b"},
			c14Op{kind: "disconnect", client: ci},
			c14Op{kind: "connect", client: ci})
	}
	return ops
}

type c14Sub struct {
	client, filter string
}

type c14Sys struct {
	nops   int // operations applied so far
	ops    []c14Op
	topics []string
	b      *Broker
	cl     [2]*Client
	live   map[c14Sub]byte
	maybe  map[c14Sub]byte // subscriptions the statement leaves open (valid filter in a SUBSCRIBE that also carried a malformed one)
}

func c14Connect(b *Broker, cid string) *Client {
	connect := packets.NewControlPacket(packets.Connect).(*packets.ConnectPacket)
	connect.ClientIdentifier = cid
	connect.CleanSession = true
	connect.ProtocolName, connect.ProtocolVersion = "MQTT", 4
	c := newClient(connect, b, nil, nil)
	b.Lock()
	b.clients[cid] = c
	b.setSession(c, connect)
	b.Unlock()
	return c
}

func newC14Sys(ops []c14Op, topics []string) *c14Sys {
	b := &Broker{egName: "eg", name: "mq", spec: &Spec{}, clients: map[string]*Client{}, done: make(chan struct{}), pipelines: map[PacketType]string{}}
	b.topicMgr = newTopicManager(1000)
	b.sessMgr = newSessionManager(b, newStorage(nil))
	s := &c14Sys{ops: ops, topics: topics, b: b, live: map[c14Sub]byte{}, maybe: map[c14Sub]byte{}}
	for i, cid := range c14Clients {
		s.cl[i] = c14Connect(b, cid)
	}
	return s
}

// Close releases what the real objects of this instance keep running (session resend tickers, the store goroutine).
func (s *c14Sys) Close() {
	s.b.sessMgr.sessionMap.Range(func(k, v interface{}) bool {
		func() {
			defer func() { recover() }() // a session that the history already closed
			v.(*Session).close()
		}()
		return true
	})
	s.b.sessMgr.close()
	// every Session.store() leaves a goroutine sending to the (now unread) store channel: take what they send
	for idle := 0; idle < 3; {
		select {
		case <-s.b.sessMgr.storeCh:
			idle = 0
		default:
			idle++
			runtime.Gosched()
		}
	}
}

func (s *c14Sys) NumOps() int         { return len(s.ops) }
func (s *c14Sys) OpName(i int) string { return s.ops[i].String() }
func (s *c14Sys) Enabled(i int) bool {
	o := s.ops[i]
	if o.kind == "connect" {
		return s.cl[o.client] == nil
	}
	return s.cl[o.client] != nil
}

func drain(c *Client) []packets.ControlPacket {
	var ps []packets.ControlPacket
	for {
		select {
		case p := <-c.writeCh:
			ps = append(ps, p)
		default:
			return ps
		}
	}
}

func (s *c14Sys) Apply(c *mc.Ctx, i int) {
	o := s.ops[i]
	cid := c14Clients[o.client]
	cl := s.cl[o.client]
	switch o.kind {
	case "sub", "submix":
		p := packets.NewControlPacket(packets.Subscribe).(*packets.SubscribePacket)
		p.MessageID = 7
		p.Topics = []string{o.filter}
		p.Qoss = []byte{o.qos}
		if o.kind == "submix" {
			p.Topics = append(p.Topics, o.bad)
			p.Qoss = append(p.Qoss, o.qos)
		}
		p.Qos = 1
		if err := cl.processPacket(p); err != nil {
			c.Failf("subscribe-returned-error", "%s: processPacket error %v", o, err)
		}
		acked := false
		for _, r := range drain(cl) {
			if _, ok := r.(*packets.SubackPacket); ok {
				acked = true
			}
		}
		wf := refWellFormed(o.filter) && o.kind == "sub"
		switch {
		case o.kind == "submix":
			if acked {
				c.Failf("malformed-filter-acknowledged", "%s: a SUBSCRIBE carrying a malformed filter was acknowledged", o)
			}
			if _, ok := s.live[c14Sub{cid, o.filter}]; !ok {
				s.maybe[c14Sub{cid, o.filter}] = o.qos
			}
			c.AddOutcome("submix-rejected")
		case wf:
			if !acked {
				c.Failf("valid-subscribe-not-acknowledged", "%s: no SUBACK", o)
			}
			s.live[c14Sub{cid, o.filter}] = o.qos
			delete(s.maybe, c14Sub{cid, o.filter})
			c.AddOutcome("sub-ok")
		default:
			if acked {
				c.Failf("malformed-filter-acknowledged", "%s: malformed filter acknowledged with SUBACK", o)
			}
			c.AddOutcome("sub-malformed-rejected")
		}
	case "unsub", "unsubmix":
		p := packets.NewControlPacket(packets.Unsubscribe).(*packets.UnsubscribePacket)
		p.MessageID = 8
		p.Topics = []string{o.filter}
		if o.kind == "unsubmix" {
			p.Topics = []string{o.bad, o.filter}
		}
		if err := cl.processPacket(p); err != nil {
			c.Failf("unsubscribe-returned-error", "%s: processPacket error %v", o, err)
		}
		acked := false
		for _, r := range drain(cl) {
			if _, ok := r.(*packets.UnsubackPacket); ok {
				acked = true
			}
		}
		if acked {
			// an acknowledged UNSUBSCRIBE ends the subscription to every filter it named
			delete(s.live, c14Sub{cid, o.filter})
			delete(s.maybe, c14Sub{cid, o.filter})
			c.AddOutcome(o.kind + "-acked")
		} else {
			if refWellFormed(o.filter) && o.kind == "unsub" {
				c.Failf("valid-unsubscribe-not-acknowledged", "%s: no UNSUBACK", o)
			}
			c.AddOutcome(o.kind + "-not-acked")
		}
	case "disconnect":
		cl.closeAndDelSession()
		s.b.removeClient(cid)
		s.cl[o.client] = nil
		for k := range s.live {
			if k.client == cid {
				delete(s.live, k)
			}
		}
		for k := range s.maybe {
			if k.client == cid {
				delete(s.maybe, k)
			}
		}
		c.AddOutcome("disconnect")
	case "connect":
		s.cl[o.client] = c14Connect(s.b, cid)
		c.AddOutcome("connect")
	}
	s.check(c, o)
}

// c14Order fixes the order in which findSubscribers visits the children of every trie node (the range over
// node.nodes of topic.go is rewritten to vrt.StringKeys): pass p takes the p-th of the enumerated orders.
type c14Order int

func (p c14Order) Choose(n int, label string) int    { return int(p) % n }
func (p c14Order) ChooseDev(n int, label string) int { return int(p) % n }

var c14Passes = []c14Order{0, 1}

func (s *c14Sys) check(c *mc.Ctx, o c14Op) {
	s.nops++
	if c.InPrefix {
		return // replay of the path to a state that was checked when it was first reached
	}
	defer vrt.SetOrderChooser(nil)
	passes := c14Passes
	for _, pass := range passes {
		vrt.SetOrderChooser(pass)
		s.checkRouting(c, o, int(pass))
	}
	vrt.SetOrderChooser(nil)
	s.checkResidue(c, o)
}

func (s *c14Sys) checkRouting(c *mc.Ctx, o c14Op, pass int) {
	for _, t := range s.topics {
		got, err := s.b.topicMgr.findSubscribers(t)
		if err != nil {
			c.Failf("topic-name-rejected", "findSubscribers(%q): %v", t, err)
		}
		for ci, cid := range c14Clients {
			must, may := false, false
			qosOK := map[byte]bool{}
			for k, q := range s.live {
				if k.client == cid && refMatch(k.filter, t) {
					must = true
					qosOK[q] = true
				}
			}
			for k, q := range s.maybe {
				if k.client == cid && refMatch(k.filter, t) {
					may = true
					qosOK[q] = true
				}
			}
			q, routed := got[cid]
			switch {
			case must && !routed:
				c.Failf("missing-subscriber:"+s.why(cid, t), "after %s: topic %q is not routed to %s, which holds a matching live subscription (live=%v)", o, t, cid, s.liveList())
			case routed && !must && !may:
				why := "no-matching-subscription"
				if s.cl[ci] == nil {
					why = "client-disconnected"
				}
				c.Failf("extra-subscriber:"+why+":after-"+o.kind, "after %s: topic %q is routed to %s, which holds no matching live subscription (live=%v)", o, t, cid, s.liveList())
			case routed && !qosOK[q]:
				c.Failf("foreign-qos", "after %s: topic %q routed to %s with QoS %d, not the QoS of any of its matching subscriptions (live=%v)", o, t, cid, q, s.liveList())
			}
		}
	}
}

func (s *c14Sys) checkResidue(c *mc.Ctx, o c14Op) {
	// no residue: the trie must be structurally equal to one built from scratch from the live set
	if len(s.maybe) == 0 {
		fresh := newTopicManager(1000)
		for k, q := range s.live {
			fresh.subscribe([]string{k.filter}, []byte{q}, k.client)
		}
		if d := trieDiff(s.b.topicMgr.root, fresh.root, ""); d != "" {
			c.Failf("trie-residue:after-"+o.kind, "after %s: trie differs from the trie built from the live set %v: %s", o, s.liveList(), d)
		}
	}
}

func (s *c14Sys) why(cid, t string) string {
	for k := range s.live {
		if k.client == cid && refMatch(k.filter, t) {
			switch {
			case strings.HasSuffix(k.filter, "#"):
				return "hash-filter"
			case strings.Contains(k.filter, "+"):
				return "plus-filter"
			}
		}
	}
	return "literal-filter"
}

// trieDiff compares two tries modulo subtrees that hold no client at all (such empty
// nodes cannot affect routing, so they are not "residue" in the sense of the property).
func trieDiff(a, b *topicNode, path string) string {
	a, b = trieLive(a), trieLive(b)
	return trieDiff0(a, b, path)
}

func trieLive(n *topicNode) *topicNode {
	out := newNode()
	for k, v := range n.clients {
		out.clients[k] = v
	}
	for k, c := range n.nodes {
		if l := trieLive(c); len(l.clients) > 0 || len(l.nodes) > 0 {
			out.nodes[k] = l
		}
	}
	return out
}

func trieDiff0(a, b *topicNode, path string) string {
	if len(a.clients) != len(b.clients) {
		return fmt.Sprintf("node %q: clients %v vs %v", path, a.clients, b.clients)
	}
	for k, v := range a.clients {
		if w, ok := b.clients[k]; !ok || w != v {
			return fmt.Sprintf("node %q: clients %v vs %v", path, a.clients, b.clients)
		}
	}
	if len(a.nodes) != len(b.nodes) {
		return fmt.Sprintf("node %q: children %v vs %v", path, keysOf(a.nodes), keysOf(b.nodes))
	}
	for k, n := range a.nodes {
		m, ok := b.nodes[k]
		if !ok {
			return fmt.Sprintf("node %q: children %v vs %v", path, keysOf(a.nodes), keysOf(b.nodes))
		}
		if d := trieDiff0(n, m, path+"/"+k); d != "" {
			return d
		}
	}
	return ""
}

func keysOf(m map[string]*topicNode) []string {
	var ks []string
	for k := range m {
		ks = append(ks, k)
	}
	sort.Strings(ks)
	return ks
}

func (s *c14Sys) liveList() []string {
	var l []string
	for k, q := range s.live {
		l = append(l, fmt.Sprintf("%s:%s:q%d", k.client, k.filter, q))
	}
	for k, q := range s.maybe {
		l = append(l, fmt.Sprintf("%s:%s:q%d?", k.client, k.filter, q))
	}
	sort.Strings(l)
	return l
}

func (s *c14Sys) Canon() string {
	return fmt.Sprintf("%v conn=%v,%v", s.liveList(), s.cl[0] != nil, s.cl[1] != nil)
}

func TestVerifC14(t *testing.T) {
	env := mc.GetEnv()
	depth := 2 // operations after the first one
	if env.Thorough() {
		depth = 3
	}
	ops := c14Ops()
	topics := c14Topics()
	var jobs []mc.Job
	for i := range ops {
		i := i
		jobs = append(jobs, mc.BFSJob(mc.BFSOptions{Job: fmt.Sprintf("first-op-%02d:%s", i, ops[i]), MaxDepth: depth, InitPath: []int{i}},
			func() mc.Sys { return newC14Sys(ops, topics) }))
	}
	if os.Getenv("VERIF_DEBUG_MEM") != "" {
		mc.OnExit = append(mc.OnExit, func() {
			var m runtime.MemStats
			runtime.ReadMemStats(&m)
			fmt.Fprintf(os.Stderr, "DEBUG goroutines=%d heap=%dMB\n", runtime.NumGoroutine(), m.HeapAlloc>>20)
			pprof.Lookup("goroutine").WriteTo(os.Stderr, 1)
		})
	}
	mc.RunJobs("C14", jobs)
}
