"""Check table for vcheck: one entry per claimed property."""

CHECKS = {}
NOT_APPLICABLE = {}

CHECKS["C08"] = {
    "level": "model_checking",
    "technique": "explicit-state model checking (BFS over canonical states of the real object, lock-step reference automaton)",
    "level_text": "every operation sequence up to the depth bound over the real CircuitBreaker, deduplicated by canonical state, "
                  "agrees step by step with a reference automaton written from the property statement; concurrency part: all schedules of 3 callers",
    "level_note": "bounded depth and alphabet (12 policies, 4 clock increments); clock owned through nowFunc; canonicalisation argument in DESIGN §3 C08",
    "rule": "explicit-state BFS over operation sequences {acquire, record(pending token k, success|failure|slow), tick(d)} "
            "on the real CircuitBreaker for 12 policies, lock-step against the reference automaton (DESIGN A.3); a state is the "
            "canonical dump of the breaker's private fields + pending tokens; distinct_nontrivial counts distinct "
            "(operation outcome) classes observed, e.g. record-failure-in-HalfOpen->Open",
    "explanation": "states = distinct canonical states of the real object reached; transitions = operations applied to a fresh real "
                   "object (each after replaying the shortest path to its source state); every transition is compared with the reference.",
    "bounds": {"quick": "BFS depth 9, <=3 pending tokens, 12 policies; 3-4 actors, preemption bound 2", "thorough": "BFS depth 13; 3-4 actors, all schedules"},
    "assumptions": ["clock read only through circuitbreaker.nowFunc (harness-owned)",
                    "canonical state covers every field AcquirePermission/RecordResult read"],
    "units": [
        {"name": "circuitbreaker", "pkg": "pkg/util/circuitbreaker", "test": "TestVerifC08", "workers": 12},
        {"name": "cbsched", "pkg": "pkg/util/circuitbreaker", "test": "TestVerifC08sched", "workers": 6, "gomaxprocs": 1,
         "inject": [["pkg/util/circuitbreaker", "harness/C08/circuitbreaker"]],
         "instrument": [{"file": "pkg/util/circuitbreaker/circuitbreaker.go", "imports": {"sync": "vsync"}}]},
        {"name": "proxy", "pkg": "pkg/filters/proxy", "test": "TestVerifC08proxy", "inject": [["pkg/filters/proxy", "harness/common/proxy"]], "workers": 1},
    ],
}

HTTPRIG = ["pkg/object/httpserver", "harness/common/httpserver"]
# order in which findSubscribers visits the children of a trie node: an explorer / harness choice
TOPICINSTR = {"file": "pkg/object/mqttproxy/topic.go", "need_vrt": True,
                "replace": [{"old": "for nodeLevel, nextNode := range node.nodes {",
                             "new": "for _, nodeLevel := range zzvrt.StringKeys(node.nodes, \"findSubscribers\") {\n\t\t\t\tnextNode := node.nodes[nodeLevel]"}]}
BROKERRIG = ["pkg/object/mqttproxy", "harness/common/mqttproxy"]
BROKERINSTR = [{"file": "pkg/object/mqttproxy/broker.go", "imports": {"net": "vnet"}, "need_vrt": True,
                "replace": [{"old": "for clientID, subQoS := range subscribers {",
                             "new": "for _, clientID := range zzvrt.StringKeys(subscribers, \"sendMsgToClient\") {\n\t\tsubQoS := subscribers[clientID]"}]},
               TOPICINSTR]
# the real HTTPServer runtime on an in-memory listener (shared by C17 and C11; the harness lives in harness/C17/httpruntime)
RUNTIMEUNIT = {"name": "httpruntime", "pkg": "pkg/object/httpserver", "test": "TestVerifC17rt", "inject": [HTTPRIG, ["pkg/object/httpserver", "harness/C17/httpruntime"]],
               "instrument": [{"file": "pkg/object/httpserver/runtime.go", "add_imports": {"zzvnet": "vnet"},
                               "replace": [{"old": "gnet.Listen(\"tcp\", fmt.Sprintf(\":%d\", r.spec.Port))", "new": "zzvnet.Listen(\"tcp\", fmt.Sprintf(\":%d\", r.spec.Port))"}]}]}

CHECKS["C01"] = {
    "level": "exploration",
    "technique": "bounded exhaustive enumeration (choice-tree DFS) of rule sets x requests on the real mux against a reference router",
    "level_text": "every rule set with <=2 rules and <=3 path entries (17-entry menu x 3 host matchers, every order) x 192 requests "
                  "is served by the real mux (YAML -> supervisor.NewSpec -> reload -> ServeHTTP) and compared with an independent reference router; job header-matchers: one entry with 1-2 header matchers (values only, regexp only, both agreeing, both contradicting, ^$) x matchAllHeader x a later header-less entry x 12 combinations of present/absent request header values",
    "level_note": "finite alphabet of matchers and requests; route cache off; HTTP/3 stubbed out (quic-go does not build); reference router = DESIGN A.1",
    "rule": "choice tree: shape of the rule set, host matcher per rule, path entry per slot; each execution serves all 192 requests; "
            "distinct_nontrivial = distinct (expected status) classes x units; outcome table counts requests per expected status",
    "bounds": {"quick": "<=2 entries in <=2 rules (3519 rule sets) x 192 requests", "thorough": "<=3 entries in <=2 rules (~1.07e5 rule sets) x 192 requests"},
    "assumptions": ["requests built with httptest.NewRequest; handler-visible path read inside a recording handler"],
    "units": [
        {"name": "httpserver", "pkg": "pkg/object/httpserver", "test": "TestVerifC01", "inject": [HTTPRIG]},
    ],
}

CHECKS["C12"] = {
    "level": "model_checking",
    "technique": "exhaustive enumeration of request histories (choice-tree DFS) on the real mux with differential oracle (cache-less twin)",
    "level_text": "every request sequence up to the bound over a collision-forcing alphabet, for 60 configurations x cache sizes {1,2,64}, is served by the "
                  "real mux with the cache on; each response is compared with the cache-less twin's answer for that request; configs variants/*: spellings of host (letter case, port) and path (letter case, trailing slash) that the rules tell apart",
    "level_note": "finite alphabet (hosts a/aP, methods PUT/UT, paths /p,/q, header X, two clients); the cache-less mux is stateless so its answer per request is computed once",
    "rule": "choice tree: request i of the history (16 or 32 alternatives); a fresh muxInstance (fresh ARC cache) per history; distinct_nontrivial = distinct "
            "sequences of uncached statuses observed along a history",
    "explanation": "states = histories executed (each ends in a distinct cache state reached from an empty cache); transitions = executions; every step compared with the twin",
    "bounds": {"quick": "histories of length 3, 60 configs x 3 cache sizes", "thorough": "length 4 for cache sizes 1,2 and for configs without ip filter, else 3"},
    "assumptions": ["ARC cache behaviour is deterministic given the history"],
    "units": [
        {"name": "httpserver", "pkg": "pkg/object/httpserver", "test": "TestVerifC12", "inject": [HTTPRIG]},
    ],
}

CHECKS["C05"] = {
    "level": "exploration",
    "technique": "bounded exhaustive enumeration of filter specs x client addresses (reference: net.IPNet.Contains + decision table) and of request histories x filter placements on the real mux",
    "level_text": "all allow/block specs with <=2+<=2 entries from a 14-entry menu (and every prefix length /0../32, /0../128 around two anchors) x 165 client "
                  "addresses (anchor +- one bit at every position, IPv4-mapped) decided by the real IPFilter equal the reference; all request histories up to the bound "
                  "x 64 server/rule/path filter placements x cache sizes {0,1,16} on the real mux: denied => 4xx (403 if routed) and no handler, else equal to the filterless twin; sibling family: 2 rules x 2 paths carrying different filters under a server filter (768 placements x cache on/off x request pairs); nested entries sharing one base address as every ordered list of 1-3 entries",
    "level_note": "finite menus; client address taken from RemoteAddr / X-Forwarded-For / X-Real-IP via the real realip code",
    "rule": "unit ipfilter: choice tree (allow subset, block subset, blockByDefault) and (family, prefix length, allow|block, default), each execution decides all clients; "
            "unit mux: choice tree over histories of 36 requests; distinct_nontrivial = distinct (denied?, twin status) classes",
    "bounds": {"quick": "block subsets <=1 entry; histories of length 2", "thorough": "block subsets <=2 entries; histories of length 3"},
    "assumptions": [],
    "units": [
        {"name": "ipfilter", "pkg": "pkg/util/ipfilter", "test": "TestVerifC05ipfilter"},
        {"name": "httpserver", "pkg": "pkg/object/httpserver", "test": "TestVerifC05mux", "inject": [HTTPRIG]},
    ],
}

CHECKS["C02"] = {
    "level": "exploration",
    "technique": "deviation-bounded exhaustive enumeration (choice-tree DFS) of pipeline specs x filter result vectors against a reference validity predicate and interpreter",
    "level_text": "every flow within the node/deviation bound (aliases, namespaces, jumpIf entries incl. END / backward / unknown / ambiguous targets and undeclared results, "
                  "END nodes, duplicate and reserved filter names, empty flow) is validated through supervisor.NewSpec and compared with the reference predicate; every accepted flow is "
                  "executed on the real Pipeline for every vector of filter results and compared with the reference interpreter (invocation order, namespace, result, stats names); "
                  "before/main/after triples through HandleWithBeforeAfter; unit globalfilter: (before, main, after) triples configured through the real GlobalFilter (spec validation, Init, and Init+Inherit over a menu of 6 sides incl. filters-without-flow) and run by GlobalFilter.Handle",
    "level_note": "finite alphabet (filters f1,f2 of a test kind with results r1,r2); deviation = a non-default alias/namespace/jump entry/filter list; reference = DESIGN A.2",
    "rule": "choice tree: filter list, flow length, per node filter/alias/namespace/jump targets, then the result of every filter invocation; "
            "distinct_nontrivial = distinct (number of filters run, ended?, last result | rejected) classes",
    "bounds": {"quick": "<=3 nodes & <=2 deviations; triples of <=2-node flows & <=1 deviation", "thorough": "<=3 nodes & <=3 deviations, <=4 nodes & <=2 deviations; triples & <=2 deviations"},
    "assumptions": [],
    "units": [
        {"name": "pipeline", "pkg": "pkg/object/pipeline", "test": "TestVerifC02", "inject": [["pkg/object/pipeline", "harness/common/flowmodel", "pipeline"]]},
        {"name": "globalfilter", "pkg": "pkg/object/globalfilter", "test": "TestVerifC02gf", "inject": [["pkg/object/globalfilter", "harness/common/flowmodel", "globalfilter"]]},
    ],
}

CHECKS["C14"] = {
    "level": "model_checking",
    "technique": "explicit-state model checking (BFS over subscription histories on the real broker objects, reference = MQTT 3.1.1 matching over the live set, structural no-residue differential)",
    "level_text": "every history of SUBSCRIBE / UNSUBSCRIBE (single, mixed with a malformed filter, never-subscribed) / disconnect / reconnect by two clients over 10 filters "
                  "(+, #, empty levels) and 4 malformed filters up to the depth bound is driven through the real Client.processPacket / closeAndDelSession; after every operation "
                  "all 39 topic names are routed by the real TopicManager and compared with the reference; the trie must equal the trie built from scratch from the live set; the routing is done twice per topic, under two different orders in which findSubscribers visits the children of a trie node (range over node.nodes rewritten); unit sessions (harness of C16): connection-level histories (reconnect, take-over, admin delete, storage stalls) on the real broker: what is routed to the current connection is exactly its live subscriptions",
    "level_note": "finite alphabet; '$' topics excluded; canonical state = live subscription set + connection flags (a residue is itself a violation, so merged states have equal futures)",
    "rule": "BFS split into one job per first operation; states deduplicated by canonical live set; distinct_nontrivial = distinct operation outcome classes",
    "explanation": "states = distinct canonical states reached; transitions = operations applied to fresh real objects after replaying the shortest path; each transition checks 39 topics x 2 clients",
    "bounds": {"quick": "histories of <=3 operations (78-operation alphabet)", "thorough": "histories of <=4 operations"},
    "assumptions": ["session persistence (store goroutines) is not observed here (C16)"],
    "units": [
        {"name": "mqttproxy", "pkg": "pkg/object/mqttproxy", "test": "TestVerifC14", "instrument": [TOPICINSTR], "deadline_s": {"quick": 600, "thorough": 2400}},
        # connection-level histories (reconnect, take-over, admin delete ...) on the real broker: harness shared with C16; what is
        # routed to the current connection must be exactly its live subscriptions
        {"name": "sessions", "pkg": "pkg/object/mqttproxy", "test": "TestVerifC16", "inject": [BROKERRIG, ["pkg/object/mqttproxy", "harness/C16/mqttproxy"]], "instrument": BROKERINSTR},
    ],
}

CHECKS["C09"] = {
    "level": "model_checking",
    "technique": "explicit-state model checking (BFS over arrival sequences on the real limiters, observed-quantities oracle); filter reload differential in virtual time",
    "level_text": "every arrival sequence up to the bound (6 gaps incl. exact period boundaries and multi-period idle gaps) for 12 policies on the real RateLimiter, plus AcquireN and the "
                  "MQTT request+byte MultiRateLimiter, is checked against bookkeeping of release periods: per period <= limit releases, wait <= timeout, no wait while the arrival period has a "
                  "spare permit, rejection only when every period up to the timeout horizon is full; AcquireN with timeout 0 additionally against the window clause (k consecutive periods admit < k x limit + largest request); unit mqttlimiter: the broker's Limiter for every combination of requestRate / bytesRate / timePeriod in virtual time against the exact timeout-0 reference; unit rlfilter also checks the CONFIGURED policy as observed through the filter (wait <= timeoutDuration, per-period releases, 429 only when full) and that an update changing a rule's effective policy applies",
    "level_note": "clock owned through ratelimiter.nowFunc; period 10ms; canonical state = remaining reservations + phase within the period + per-period release counts from now on",
    "rule": "BFS per policy; state = canonical dump of the limiter's private fields and the oracle's bookkeeping; distinct_nontrivial = distinct outcome classes (admit-now, admit-wait-k-periods, reject)",
    "explanation": "states = distinct canonical states; transitions = arrivals applied to a fresh real limiter after replaying the shortest path",
    "bounds": {"quick": "<=8 arrivals (6 with AcquireN, 5 multi); mqtt limiter 4 packets", "thorough": "<=11 arrivals (8 with AcquireN, 7 multi); mqtt limiter 6 packets"},
    "assumptions": ["time read only through nowFunc"],
    "units": [
        {"name": "ratelimiter", "pkg": "pkg/util/ratelimiter", "test": "TestVerifC09"},
        {"name": "rlfilter", "pkg": "pkg/filters/ratelimiter", "test": "TestVerifC09filter", "workers": 8},
        {"name": "mqttlimiter", "pkg": "pkg/object/mqttproxy", "test": "TestVerifC09mqtt", "workers": 8},
    ],
}

PROXYRIG = ["pkg/filters/proxy", "harness/common/proxy"]
C04INSTR = [{"file": "pkg/filters/proxy/loadbalance.go", "imports": {"sync/atomic": "vatomic", "math/rand": "vrand"}},
            {"file": "pkg/filters/proxy/pool.go", "imports": {"sync/atomic": "vatomic"}}]

CHECKS["C04"] = {
    "level": "model_checking",
    "technique": "exhaustive exploration of random answers and key sequences (choice-tree DFS) + controlled-scheduler enumeration of selector/list-replacement interleavings on the real ServerPool",
    "level_text": "sequential: every policy x 1..4 servers x weight vectors x discovery variants with EVERY answer of every rand.Intn call explored; concurrent: 2-3 selectors x 2 selections "
                  "interleaved with a discovery update at gate granularity (atomic counter, atomic.Value load/store, rand) up to the preemption bound; oracle: picks inside the current list, "
                  "roundRobin floor/ceil fairness per list generation, hash stickiness, zero-weight never chosen, no failure/panic for validation-accepted pools; unit lbdiscovery: every history of registry contents (7 contents incl. empty, untagged, doubly tagged, other service) pushed through a real ServiceRegistry and the pool's own watch goroutine: the pool hands out exactly the qualifying instances of the latest content, else the static list",
    "level_note": "math/rand and sync/atomic of loadbalance.go/pool.go replaced by gated shims in an overlay copy; fnSendRequest stubbed; counter wrap-around not covered",
    "rule": "choice tree: weight config, rand answers, discovery variant / scheduler choices; distinct_nontrivial = distinct (policy,n,weights,discovery) or (picks per generation) classes",
    "explanation": "states = executions (each a distinct choice sequence); transitions = executions; every execution ran on the real code",
    "bounds": {"quick": "seq: all; sched: preemption bound 2; discovery histories of 3 changes", "thorough": "seq: all; sched: preemption bound 3; discovery histories of 4 changes"},
    "assumptions": ["between two gates a goroutine runs atomically (race pass is separate)"],
    "units": [
        {"name": "lbseq", "pkg": "pkg/filters/proxy", "test": "TestVerifC04", "inject": [PROXYRIG], "instrument": C04INSTR},
        {"name": "lbsched", "pkg": "pkg/filters/proxy", "test": "TestVerifC04sched", "inject": [PROXYRIG, ["pkg/filters/proxy", "harness/C04/lbseq"]], "instrument": C04INSTR, "gomaxprocs": 1, "workers": 5},
        {"name": "lbdiscovery", "pkg": "pkg/filters/proxy", "test": "TestVerifC04disc", "inject": [PROXYRIG], "instrument": C04INSTR},
    ],
}

CHECKS["C10"] = {
    "level": "model_checking",
    "technique": "exhaustive enumeration (choice-tree DFS) of per-attempt outcomes x cancellation instants x jitter extremes on the real ServerPool.handle in virtual time (testing/synctest)",
    "level_text": "for 26 retry/timeout/stream configurations every vector of per-attempt backend outcomes (ok, 503, network error, hang, slow ok, slow 503), every cancellation instant of the menu "
                  "and the extremes/middle of every jitter draw are executed on the real retry wrapper + pool; oracle: attempts <= maxAttempts, stop at first success, back-off lower bound on the virtual clock, "
                  "no attempt after cancel, final status/result = last attempt's, stream bodies sent once, per-attempt timeout => 408/timeout; breaker around retry opens at the N-th failed CLIENT request and then answers 503 shortCircuited without calling the backend; client requests cancelled inside an attempt or a back-off still record one outcome (kind-agnostic: window 2 / 50% must be open after two requests of which one really failed); retry chains of 4 attempts: the exponential back-off keeps compounding",
    "level_note": "fnSendRequest stubbed; math/rand of pkg/resilience/retry.go replaced by vrand (5 representative answers per draw: 0,1,n/2,n-2,n-1); virtual time from synctest",
    "rule": "choice tree: cancel instant, outcome of each attempt actually made, jitter representative; distinct_nontrivial = distinct (attempt count, final status, result) classes",
    "explanation": "states = executions; each execution ran the real handle() to completion on the virtual clock",
    "bounds": {"quick": "4 cancel instants", "thorough": "6 cancel instants"},
    "assumptions": ["cancel instants chosen off the timer grid (+3ns) so cancel and timers never tie"],
    "units": [
        {"name": "proxy", "pkg": "pkg/filters/proxy", "test": "TestVerifC10", "inject": [PROXYRIG],
         "instrument": [{"file": "pkg/resilience/retry.go", "imports": {"math/rand": "vrand"}}]},
    ],
}

CHECKS["C20"] = {
    "level": "model_checking",
    "technique": "exhaustive enumeration of configuration-snapshot histories x one injected callback panic on the real supervisor/registry goroutines, quiescence by testing/synctest",
    "level_text": "every sequence of snapshots up to the bound over names {a,b} x {absent, K1 v1, K1 v2, K2 v1}, each followed to quiescence through the real ObjectRegistry.run -> applyConfig -> watcher -> "
                  "Supervisor.run -> handleEvent chain, with at most one panic injected at any lifecycle callback; oracle = reference lifecycle (DESIGN A.8): Init once on appearance, Inherit once per "
                  "spec change with the live generation as predecessor, Close once on disappearance, nothing when unchanged, kind change = Close(old)+Init(new), live set = last snapshot, the other name unaffected by a panic; an object whose Init / Inherit panicked is tracked on (it is still closed exactly once when its name disappears); unit rawconfig: snapshot histories of Pipeline objects (2 names x {absent, v1, v2}) through ObjectRegistry -> watcher -> RawConfigTrafficController.handleEvent -> TrafficController -> the real Pipeline, observed through a recording filter kind; the handler handed out belongs to the latest snapshot",
    "level_note": "two test controller kinds registered in the supervisor registry; cluster mocked by clustertest.MockedCluster whose SyncPrefix channel the harness feeds",
    "rule": "choice tree: entry of each name in each snapshot (4x4 per snapshot) + panic-or-not at each callback (deviation bound 1); distinct_nontrivial = distinct multisets of callbacks",
    "explanation": "states = executions (each a distinct snapshot history/panic point); every execution ran the real goroutines to quiescence",
    "bounds": {"quick": "3 snapshots, <=1 panic", "thorough": "4 snapshots, <=1 panic"},
    "assumptions": [],
    "units": [
        {"name": "supervisor", "pkg": "pkg/supervisor", "test": "TestVerifC20"},
        {"name": "rawconfig", "pkg": "pkg/object/rawconfigtrafficcontroller", "test": "TestVerifC20rc"},
    ],
}

CHECKS["C06"] = {
    "level": "exploration",
    "technique": "bounded exhaustive enumeration (choice-tree DFS) of accepted base requests x single mutations on the real Validator filter, credentials issued by an independent implementation",
    "level_text": "for JWT (3 algorithms x 2 secrets x 4 claim sets x header/cookie), API signature (2 methods x 3 paths incl. escaped/non-ASCII x 4 queries x 3 body sizes x scopes x header/presign style x ttl), "
                  "Basic (2 users x 5 passwords incl. ':' / non-ASCII / empty x bcrypt/SHA) and header rules (alone and combined with JWT): every base request built by an independent issuer must be accepted, "
                  "and every single mutation of a covered part (token/signature bytes, algorithm, secret, method, path, query, signed header, body, key id, password, age) must be rejected with invalid + 401/400; "
                  "requests are given to the filter exactly as the HTTP server does (body already read by FetchPayload); Basic: passwords with inner/outer white space and mutations that add blank, tab, LF or CRLF around user or password; Basic in ETCD mode: every history of user-set contents (empty, removed user, changed password) through the real etcdUserCache on a mocked cluster; JWT validity over the life of one filter instance through the library clock seam (jwt.TimeFunc): the accepted token string presented again two hours later (after exp) must be rejected, a token presented two hours before nbf must be rejected and still be accepted in time",
    "level_note": "finite menus; OAuth2 token introspection (needs a remote endpoint) is not covered; wall-clock based ttl/exp checks use margins of >= 1 s .. 1 h",
    "rule": "choice tree: configuration, base-request dimensions, mutation index (0 = none); distinct_nontrivial = distinct (method, accepted variant | rejected mutation) classes",
    "bounds": {"quick": "full product of the menus x all single mutations", "thorough": "same"},
    "assumptions": ["issuer implements the documented schemes independently (RFC 7519 HS*, AWS SigV4 with ME literals, RFC 7617)"],
    "units": [
        {"name": "validator", "pkg": "pkg/filters/validator", "test": "TestVerifC06", "workers": 4},
    ],
}

CHECKS["C15"] = {
    "level": "model_checking",
    "technique": "exhaustive enumeration of subscriber populations x QoS x map visiting orders x ack behaviours on the real broker goroutines, run to quiescence on the virtual clock of a testing/synctest bubble",
    "level_text": "real Broker (real newBroker, in-memory listener) with raw MQTT clients over net.Pipe: every population of 2-3 subscribers (topic t/u; filters t/u, t/+, #, the non-matching level-prefix t, x; QoS 0/1; the first client may hold a second overlapping subscription with the other QoS and may unsubscribe or drop before the publish) x message QoS x EVERY order in which "
                  "sendMsgToClient visits the subscriber map and findSubscribers the trie; delivered and retransmitted copies carry the original topic, payload and QoS; QoS1 retransmission every 200 ms until PUBACK and never after (subscriber on a fresh session or continuing a stored persistent one), for ack after 0/1/3 periods or never; QoS0 bursts to a client that reads late (what fits its queue arrives, in order); client QoS1 PUBLISH with publish limiter and dropping pipeline, PUBACKs read promptly or only after the burst",
    "level_note": "net of broker.go redirected to an in-memory listener; the range over the subscriber map in sendMsgToClient rewritten to an explorer-chosen key order (if the site is not found the check "
                  "reports an instrumentation gap and runs with sorted order); goroutines run free between quiescent points (no interleaving control in this check)",
    "rule": "choice tree: filter and QoS of each subscriber, message QoS, visiting order, ack delay, burst size, limiter/drop/gap; distinct_nontrivial = distinct outcome classes",
    "explanation": "states = executions, each run on a fresh real broker to quiescence (synctest.Wait) after every event",
    "bounds": {"quick": "2-3 subscribers, 5 resend periods", "thorough": "same"},
    "assumptions": ["synctest.Wait quiescence: every goroutine of the broker is blocked on a channel/timer/pipe"],
    "units": [
        {"name": "mqttproxy", "pkg": "pkg/object/mqttproxy", "test": "TestVerifC15", "inject": [BROKERRIG], "instrument": BROKERINSTR, "workers": 5},
    ],
}

CHECKS["C16"] = {
    "level": "model_checking",
    "technique": "exhaustive enumeration of connection-event histories for one client id on the real broker goroutines (quiescence by testing/synctest), reference session model",
    "level_text": "every well-formed sequence of events {connect clean, connect non-clean (takeover when one is open), subscribe t1/t2 (QoS 1), subscribe t1 at QoS 0 (a QoS-only change), unsubscribe, network drop of the current connection, network drop of a superseded "
                  "connection (= the moment its read loop notices), write-dead current connection, admin session delete, session storage stalls / resumes (puts block meanwhile)} up to the bound, on the real Broker with raw MQTT clients; after every event probe messages (QoS 0 on every topic, QoS 1 on t1) and the broker's "
                  "registration/session map are compared with the reference session model (DESIGN A.6); unit takeoversched: the end of connection A's link runs concurrently with connection B of the same id connecting and subscribing, at gate granularity (sync and atomics of broker.go, client.go, session_manager.go, session.go, topic.go gated): B stays registered, receives what it subscribed (plus A's topics iff it continues A's persistent session), and its stored session survives; admin delete whose watch event reaches the broker late while the still-connected client subscribes in between: the client is disconnected once the event arrives",
    "level_note": "events are separated by quiescence (synctest.Wait), i.e. the interleaving of goroutines inside one event is the Go runtime's; up to 3 connections per history",
    "rule": "choice tree over the events enabled in each state; distinct_nontrivial = distinct event histories",
    "explanation": "states = executions (event histories run on a fresh real broker); transitions = executions",
    "bounds": {"quick": "histories of 7 events; take-over schedules with <=2 preemptions", "thorough": "histories of 8 events; <=3 preemptions"},
    "assumptions": ["synctest.Wait quiescence"],
    "units": [
        {"name": "mqttproxy", "pkg": "pkg/object/mqttproxy", "test": "TestVerifC16", "inject": [BROKERRIG], "instrument": BROKERINSTR},
        {"name": "takeoversched", "pkg": "pkg/object/mqttproxy", "test": "TestVerifC16sched", "inject": [BROKERRIG], "gomaxprocs": 1, "workers": 4,
         "instrument": [dict(BROKERINSTR[0], imports={"net": "vnet", "sync": "vsync", "sync/atomic": "vatomic"}),
                        {"file": "pkg/object/mqttproxy/client.go", "imports": {"sync": "vsync", "sync/atomic": "vatomic"}},
                        {"file": "pkg/object/mqttproxy/session_manager.go", "imports": {"sync": "vsync"}},
                        {"file": "pkg/object/mqttproxy/session.go", "imports": {"sync": "vsync"}},
                        dict(TOPICINSTR, imports={"sync": "vsync"})]},
    ],
}

CHECKS["C17"] = {
    "level": "model_checking",
    "technique": "controlled-scheduler enumeration of accept/close/SetMaxConnection interleavings on the real LimitListener+Semaphore; exhaustive connect/drop/takeover histories on the real MQTT broker",
    "level_text": "HTTP: 8 scenarios (caps 1-2, 3-4 dials, closes incl. double close, grow / shrink below usage / shrink+grow, 1-2 acceptor loops) explored over every schedule of dial, accept, close and "
                  "SetMaxConnection steps (incl. the goroutine that applies a cap change) up to the preemption bound; oracle: with an unchanged cap no admission at open >= cap; at quiescence free capacity is usable, "
                  "the final capacity equals the last cap exactly (probe dials), nothing established is dropped. MQTT: every history of connect / drop / takeover / end-of-a-superseded-link events over 3 ids at caps 1 and 2 on the real broker; unit httpruntime: every history of {dial, close, hot update of maxConnections to 1/2/3, hot update of the rules} on the REAL HTTPServer runtime (fsm, http.Server, LimitListener) over an in-memory listener: accepted open connections = reference while all cap changes applied at once, no established connection dropped, answers from the latest rules; the limitlistener unit counts open connections at the socket level (the accepted connection's own Close is a gate)",
    "level_note": "sync of sem.go / limitlistener.go replaced by gated shims, gate at the goroutine started by SetMaxCount; golang.org/x/sync/semaphore itself runs uninstrumented (its waits are channel waits, i.e. durably blocked); "
                  "MQTT events are separated by quiescence (no interleaving control inside one CONNECT)",
    "rule": "choice tree = scheduler choices (preemptions are deviations) resp. event histories; distinct_nontrivial = distinct (accepted, open) outcomes resp. histories",
    "explanation": "states = executions; each execution ran the real code under the scheduler / to quiescence",
    "bounds": {"quick": "preemption bound 2; MQTT histories of 5 events; HTTP runtime histories of 5 events", "thorough": "preemption bound 3; MQTT histories of 7 events; HTTP runtime histories of 7 events"},
    "assumptions": ["between two gates a goroutine runs atomically"],
    "units": [
        {"name": "limitlistener", "pkg": "pkg/util/limitlistener", "test": "TestVerifC17", "gomaxprocs": 1, "workers": 8,
         "instrument": [{"file": "pkg/util/sem/semaphore.go", "imports": {"sync": "vsync"}, "go_gates": True},
                        {"file": "pkg/util/limitlistener/limitlistener.go", "imports": {"sync": "vsync"}}]},
        {"name": "mqttcap", "pkg": "pkg/object/mqttproxy", "test": "TestVerifC17mqtt", "inject": [BROKERRIG], "instrument": BROKERINSTR},
        {"name": "mqttcapsched", "pkg": "pkg/object/mqttproxy", "test": "TestVerifC17mqttsched", "inject": [BROKERRIG], "gomaxprocs": 1, "workers": 3,
         "instrument": [dict(BROKERINSTR[0], imports={"net": "vnet", "sync": "vsync", "sync/atomic": "vatomic"})]},
        RUNTIMEUNIT,
    ],
}

CHECKS["C11"] = {
    "level": "model_checking",
    "technique": "explicit-state BFS over object operations on the real TrafficController + controlled-scheduler enumeration of request/update interleavings (TrafficController, mux) + exhaustive old-generation check per filter kind",
    "level_text": "(a) for 14 filter kinds x {same, changed spec} x 0-2 earlier requests: after the real Pipeline.Inherit (which closes the old generation) a request still holding the old generation and one on the new "
                  "generation complete without panic; (b) BFS over create/update/apply/delete of pipelines p1,p2 and a traffic gate: after every operation every other object still resolves through the gate's mapper "
                  "and answers with its own generation, Apply of an equal spec is a no-op; (c) 2 requests || ApplyPipeline || Delete+Create under the scheduler: no request fails or mixes generations, "
                  "a request started after the update sees the new generation; (d) requests || mux.reload under the scheduler: every per-request option comes from one generation; (a2) a filter that keeps its name but changes its kind (all ordered pairs of 14 kinds): the updated pipeline behaves like a fresh one; unit rlfilter (harness of C09): RateLimiter state kept across an update of an unchanged rule, a changed effective policy applied; the old generation answers a request exactly as it did before the update (all kinds but RateLimiter); "
                  "(e) reload differential: for every ordered pair of 7 server specs (rules, body limit, route cache, server-level ipFilter) x 0-2 warm-up requests, after reload every request is answered exactly as by a fresh mux built from the new spec; unit gfupdate: every ordered pair of GlobalFilter specs (each side absent / [x] / [y] / [x,y]) through Init, Inherit, requests on the old and the new generation: no panic, side-wise hand-over (inherit from the same side's filter of that name, old filters of a kept side closed exactly once, nothing closed twice), each request runs its own generation's flows",
    "level_note": "sync of trafficcontroller.go and sync/atomic of mux.go replaced by gated shims; a recording filter yields between the filters of a pipeline and inside its Init / Inherit; unit httpruntime (shared with C17): the real HTTPServer runtime on an in-memory listener, hot updates of rules and maxConnections; updates that need a listener restart are not covered",
    "rule": "choice trees: spec change / request count; BFS canonical state = live objects with generation; scheduler choices; distinct_nontrivial = distinct outcome classes",
    "explanation": "states = BFS canonical states + executions; transitions = BFS transitions + executions; all on the real objects",
    "bounds": {"quick": "BFS depth 4; preemption bound 2", "thorough": "BFS depth 6; preemption bound 3"},
    "assumptions": ["between two gates a goroutine runs atomically"],
    "units": [
        {"name": "trafficcontroller", "pkg": "pkg/object/trafficcontroller", "test": "TestVerifC11", "gomaxprocs": 1, "workers": 12,
         "inject": [["pkg/object/trafficcontroller", "harness/common/specs", "trafficcontroller"]],
         "instrument": [{"file": "pkg/object/trafficcontroller/trafficcontroller.go", "imports": {"sync": "vsync"}}]},
        {"name": "httpserver", "pkg": "pkg/object/httpserver", "test": "TestVerifC11mux", "gomaxprocs": 1, "workers": 4, "inject": [HTTPRIG],
         "instrument": [{"file": "pkg/object/httpserver/mux.go", "imports": {"sync/atomic": "vatomic"}}]},
        RUNTIMEUNIT,
        # the RateLimiter filter's hot update (state kept for an unchanged rule, a changed effective policy applied): harness shared with C09
        {"name": "rlfilter", "pkg": "pkg/filters/ratelimiter", "test": "TestVerifC09filter", "workers": 8, "inject": [["pkg/filters/ratelimiter", "harness/C09/rlfilter"]]},
        {"name": "gfupdate", "pkg": "pkg/object/globalfilter", "test": "TestVerifC11gf", "workers": 2},
    ],
}

CHECKS["C13"] = {
    "level": "exploration",
    "technique": "deviation-bounded exhaustive enumeration (choice-tree DFS) of specs around a base spec per kind; accepted specs are instantiated and exercised on the real objects",
    "level_text": "for 14 filter kinds (RateLimiter, Mock, Request/ResponseAdaptor, Validator, Fallback, CORSAdaptor, Request/ResponseBuilder, Proxy, CertExtractor, HeaderToJSON, MeshAdaptor, RemoteFilter; the Kafka, WASM, header-lookup and MQTT-protocol kinds need services or another protocol and are not instantiated), Pipeline, both resilience kinds and the GlobalFilter / HTTPServer / MQTTProxy specs: every spec within the deviation bound of a base spec (generic deviations generated "
                  "from the YAML tree: field absent, empty, zero, negative, huge, 0s, unsupported string, flipped bool, empty list/map; plus a hand-written menu of optional fields and cross references) "
                  "is validated the way the admin API does (supervisor.NewSpec of the enclosing pipeline / object); every accepted spec is created, initialised, serves 6 requests, is inherited and closed; no step may panic; serving includes writing the produced response to a ResponseWriter as the mux does; every duration field also with 999999ns (positive, zero in whole milliseconds)",
    "level_note": "kinds that need an external service to start (Kafka, WasmHost, RemoteFilter, HeaderLookup, etcd-backed basic auth) are out of scope; HTTPServer/MQTTProxy/GlobalFilter specs are only validated, not started (sockets)",
    "rule": "choice tree: one binary deviation choice per generated deviation (deviation bound = number of changed fields); distinct_nontrivial = distinct (kind, accepted|rejected) classes",
    "bounds": {"quick": "1 deviation", "thorough": "2 deviations"},
    "assumptions": [],
    "units": [
        {"name": "c13", "pkg": "pkg/zzverif/c13", "test": "TestVerifC13", "hide_tests": [],
         "inject": [["pkg/zzverif/c13", "harness/common/specs", "c13"]]},
    ],
}

LOOPBACK = ["pkg/object/httpserver", "harness/common/loopback"]

CHECKS["C03"] = {
    "level": "exploration",
    "technique": "deviation-bounded exhaustive enumeration (choice-tree DFS) of (request, backend answer, configuration) triples over real loopback sockets with a raw-socket client",
    "level_text": "every combination of up to 4 (thorough: 5) deviations from a base triple over 25 dimensions (method, escaped paths, queries, repeated / hop-by-hop / Connection-named headers incl. a second Connection line, "
                  "request body size x length-declared|chunked|gzip, backend status, body size around the compression threshold, framing, Content-Encoding, pipelines with Request/ResponseAdaptor body|compress|decompress, "
                  "server by IP|host name|keepHost, compression, buffered|stream) is sent through the real http.Server + mux + Pipeline + Proxy to a real backend; oracle on what the backend received and on the bytes the client received (framing parsed by hand); unit hostheader: every form of server URL (IPv4, IPv6 literal, host name; with and without port; http/https) x keepHost through the real ServerPool request preparation: the Host handed to the HTTP client; unit memcache: pool memoryCache, every history of 3 requests (2 keys incl. a 404, GET/POST, request Cache-Control) x what a filter after the Proxy did to the previous response (recompressed, headers rewritten, status/body replaced): every response equals the backend's for its key, Content-Length matches, no-cache and POST are forwarded",
    "level_note": "free-running real net/http stack: the enumeration is over inputs and configurations, not schedules; no timing in the oracle; HTTP/1.1 only",
    "rule": "choice tree: one ChooseDev per dimension (deviation = non-base value); distinct_nontrivial = distinct (status, framing) outcomes",
    "bounds": {"quick": "4 deviations", "thorough": "5 deviations"},
    "assumptions": ["every request carries Connection: close so that the end of the framed response is observable"],
    "units": [
        {"name": "httpserver", "pkg": "pkg/object/httpserver", "test": "TestVerifC03", "inject": [LOOPBACK]},
        {"name": "hostheader", "pkg": "pkg/filters/proxy", "test": "TestVerifC03host", "inject": [PROXYRIG], "workers": 2},
        {"name": "memcache", "pkg": "pkg/filters/proxy", "test": "TestVerifC03cache", "inject": [PROXYRIG], "workers": 4},
    ],
}

CHECKS["C07"] = {
    "level": "exploration",
    "technique": "exhaustive enumeration (choice-tree DFS) of the product limits x sizes x encodings in both directions over real loopback sockets with a raw-socket client",
    "level_text": "requests: clientMaxBodySize at path and server level in {unset, 1000, -1} x body size {999, 1000, 1001, 10000} x {Content-Length, chunked, lying Content-Length}; responses: serverMaxBodySize at pool and "
                  "proxy level, same sizes and encodings; thorough adds the 4 MiB default (4MiB-1, 4MiB, 4MiB+1); oracle: over the effective limit => 413 and the backend never called / 5xx and none of the body; "
                  "at or below => 200 with identical bytes; fewer bytes than declared => an error status (or, for streamed responses, a visibly broken framing), never a clean success; the response direction also with Proxy compression on (client accepts gzip): the limit is about what the backend sends, a cut body must show at least as a damaged gzip stream",
    "level_note": "free-running real net/http stack; no timing in the oracle",
    "rule": "choice tree: inner limit, outer limit, size, encoding; distinct_nontrivial = distinct (direction, status) outcomes",
    "bounds": {"quick": "limit 1000: 2 x 108 cases", "thorough": "+ default 4 MiB limit: 2 x 9 cases"},
    "assumptions": [],
    "units": [
        {"name": "httpserver", "pkg": "pkg/object/httpserver", "test": "TestVerifC07", "inject": [LOOPBACK], "workers": 8},
    ],
}

CHECKS["C18"] = {
    "level": "model_checking",
    "technique": "controlled-scheduler enumeration of 3 concurrent admin requests on the real handlers with a linearisability oracle; TLA+ model of the cluster mutex checked by TLC, all its traces replayed against the real mutex on an embedded etcd",
    "level_text": "part 1: all 56 trios from 8 admin requests (create/update/delete/get/list on overlapping names, same and other kind) x {object present, absent} run concurrently on the real handlers over a fake cluster whose KV operations and (ideal) mutex are "
                  "scheduler gates, every schedule up to the preemption bound; oracle: some sequential order consistent with call/return order explains all statuses, X-Config-Version values, reads and the final store. "
                  "part 2: see unit mutex (TLC + trace replay); job failed-acquisition: a member with a 1 s request timeout fails 1-2 times to lock a mutex another member holds; after the release the handle that failed, another handle of that member and the previous holder must each be able to acquire it; api unit: one request of each trio may go to a second member's API server working on the same store and mutex; the menu includes an update with the configuration the object already has; goroutines of one member with a hold time longer than the request timeout (A holds 1.5 s at 1 s timeout, B then C call Lock on the same or another handle): no second holder, waiters served one at a time",
    "level_note": "part 1 assumes an exclusive lock (that is what part 2 is about); supervisor kinds are two test kinds",
    "rule": "choice tree: initial state + scheduler choices; distinct_nontrivial = distinct status triples",
    "explanation": "states = executions (schedules) resp. TLC states; transitions likewise; traces_validated_against_impl = executions on the real code",
    "bounds": {"quick": "preemption bound 2", "thorough": "preemption bound 3"},
    "assumptions": ["between two gates a goroutine runs atomically"],
    "units": [
        {"name": "api", "pkg": "pkg/api", "test": "TestVerifC18api", "gomaxprocs": 1},
        {"name": "mutex", "pkg": "pkg/cluster", "test": "TestVerifC18mutex", "workers": 8, "pre_cmd": ["bin/c18_traces", "{tier}", "{out}"]},
    ],
}

CHECKS["C19"] = {
    "level": "fault_enumeration",
    "technique": "exhaustive enumeration of write histories x fault points (etcd server stop/start) x consumers x APIs against the real syncer on an embedded etcd",
    "level_text": "every history of up to 3 (thorough 4) operations from {put k1=v1, put k1=v2, del k1, put k2=v1, del k2, put outside the prefix} x {eager consumer, consumer that reads only afterwards} x {SyncPrefix, Sync (+ raw variants)} "
                  "x {burst, spaced writes}; continuations (every operation pair) after a consumer that stopped reading for 30 pull periods and then drains; thorough: every history of <=2 operations x an etcd server stop+start before every operation and after the last; oracle: each snapshot is a content the store had, positions non-decreasing, "
                  "consecutive snapshots differ, the final content arrives within 100 pull periods without further writes, nothing spurious follows; job histories-with-etcd-outage: the server is down for longer than a pull period plus the request timeout (pulls fail) before or after the last write; fault kinds: server stop/start, and the member's client cut off from its server (pulls fail every time)",
    "level_note": "schedules inside etcd / the gRPC client are not controlled (free-running): the enumeration is over histories and fault points; a server-side watch cancellation cannot be provoked from outside and is covered only through the restart fault and the periodic pull",
    "rule": "choice tree: api, consumer, gap, history length, each operation, restart point; distinct_nontrivial = distinct (api, number of distinct contents, number of snapshots) classes",
    "bounds": {"quick": "histories <=3, 2 APIs; outage around 1 write", "thorough": "histories <=4 (spaced writes <=3), 4 APIs; restart / outage at every point of histories <=2"},
    "assumptions": ["the harness is the only writer of its key prefix", "liveness deadline 100 pull periods (10 s)"],
    "units": [
        {"name": "cluster", "pkg": "pkg/cluster", "test": "TestVerifC19", "workers": 12, "deadline_s": {"quick": 240, "thorough": 1700}},
    ],
}
