package mc

import (
	"fmt"
)

// Sys is a real object (plus its reference model) driven by explicit-state search.
// A fresh Sys is built for every transition: the state is reached by replaying its
// shortest operation path, then one more operation is applied.
type Sys interface {
	// NumOps is the size of the operation alphabet.
	NumOps() int
	// OpName decodes operation i.
	OpName(i int) string
	// Enabled says whether operation i may be applied in the current state.
	Enabled(i int) bool
	// Apply applies operation i to the real object and to the reference model and
	// compares them (c.Failf on disagreement).
	Apply(c *Ctx, i int)
	// Canon is a canonical dump of the property-relevant state (real object's private
	// fields + reference state).  Equal canon => equal futures (argued per property).
	Canon() string
}

// BFSOptions configure one explicit-state search.
type BFSOptions struct {
	Job       string
	MaxDepth  int
	MaxStates int64 // 0: none
	SampleMax int
	Env       *Env
	// InitPath is applied (and checked) before the search starts; used to split one search
	// into independent jobs by first operation.  MaxDepth counts operations after it.
	InitPath []int
}

// bfsJournalPath is the operation path of the transition being executed (for the crash journal).
var bfsJournalPath []int

type bfsNode struct {
	path []uint16
}

// BFS explores all states reachable within MaxDepth operations, checking the oracle
// (inside Apply) on every transition.
func BFS(res *Result, o BFSOptions, newSys func() Sys) {
	res.Jobs++
	journalJob = o.Job
	if o.SampleMax == 0 {
		o.SampleMax = 6
	}
	seen := map[string]struct{}{}
	init := newSys()
	nops := init.NumOps()
	var initPath []uint16
	for _, op := range o.InitPath {
		initPath = append(initPath, uint16(op))
	}
	if len(initPath) > 0 {
		last := int(initPath[len(initPath)-1])
		canon, enabled, c := step(newSys, initPath[:len(initPath)-1], last)
		if !enabled && c.fail == nil {
			return // this first operation is not enabled in the initial state
		}
		res.Transitions++
		res.Executions++
		res.addOutcome(c.outcome)
		if c.fail != nil {
			res.Violations = append(res.Violations, Violation{Failure: *c.fail, Job: o.Job, Choices: pathInts(initPath[:len(initPath)-1], last), Notes: c.notes, Repro: "init"})
			return
		}
		seen[canon] = struct{}{}
	} else {
		seen[init.Canon()] = struct{}{}
	}
	frontier := []bfsNode{{path: initPath}}
	var states int64 = 1
	stopped := ""
	failKeys := map[string]int{}
	depthDone := 0
	for depth := 0; depth < o.MaxDepth && len(frontier) > 0 && stopped == ""; depth++ {
		var next []bfsNode
		for _, n := range frontier {
			if o.Env != nil && o.Env.Expired() {
				stopped = "internal deadline reached"
				break
			}
			if o.MaxStates > 0 && states >= o.MaxStates {
				stopped = fmt.Sprintf("state cap %d reached", o.MaxStates)
				break
			}
			for op := 0; op < nops; op++ {
				canon, enabled, c := step(newSys, n.path, op)
				if !enabled && c.fail == nil {
					continue
				}
				res.Transitions++
				res.Executions++
				res.addOutcome(c.outcome)
				if c.fail != nil {
					if failKeys[c.fail.Key] < 3 {
						failKeys[c.fail.Key]++
						ok := 1
						for k := 0; k < 4; k++ {
							_, _, c2 := step(newSys, n.path, op)
							if c2.fail != nil && c2.fail.Key == c.fail.Key {
								ok++
							}
						}
						v := Violation{Failure: *c.fail, Job: o.Job, Choices: pathInts(n.path, op), Notes: c.notes, Repro: fmt.Sprintf("%d/5", ok)}
						if ok == 5 {
							res.Violations = append(res.Violations, v)
						} else {
							res.Unreproduced = append(res.Unreproduced, v)
							res.Exhaustive = false
						}
					} else {
						res.Count("violations_suppressed_same_key", 1)
					}
					continue // do not extend a violating path
				}
				if _, ok := seen[canon]; ok {
					continue
				}
				seen[canon] = struct{}{}
				states++
				np := make([]uint16, len(n.path)+1)
				copy(np, n.path)
				np[len(n.path)] = uint16(op)
				next = append(next, bfsNode{np})
				if len(res.Samples) < o.SampleMax && (states < 3 || states%211 == 0) {
					res.AddSample(map[string]interface{}{"job": o.Job, "ops": c.notes, "state": canon}, o.SampleMax)
				}
			}
		}
		if stopped == "" {
			depthDone = depth + 1
		}
		frontier = next
	}
	res.States += states
	if depthDone > res.MaxDepth {
		res.MaxDepth = depthDone
	}
	if stopped != "" {
		res.Exhaustive = false
		res.Capped = append(res.Capped, fmt.Sprintf("%s: %s (depth %d complete)", o.Job, stopped, depthDone))
	}
	res.Count("bfs_frontier_left_at_depth_bound", int64(len(frontier)))
}

func pathInts(p []uint16, op int) []int {
	r := make([]int, 0, len(p)+1)
	for _, x := range p {
		r = append(r, int(x))
	}
	return append(r, op)
}

// step builds a fresh system, replays path, applies op.
func step(newSys func() Sys, path []uint16, op int) (canon string, enabled bool, c *Ctx) {
	var s Sys
	bfsJournalPath = pathInts(path, op)
	defer func() {
		// a Sys holding goroutines / timers of the real code releases them here (millions of instances are built)
		if cl, ok := s.(interface{ Close() }); ok && s != nil {
			func() {
				defer func() { recover() }()
				cl.Close()
			}()
		}
	}()
	c = runOne(func(c *Ctx) {
		s = newSys()
		c.InPrefix = true // these operations were checked when their state was first reached: a Sys may skip expensive oracles
		for _, p := range path {
			c.Note("%s", s.OpName(int(p)))
			s.Apply(c, int(p))
		}
		c.InPrefix = false
		if !s.Enabled(op) {
			return
		}
		enabled = true
		c.outcome = ""
		c.Note("%s", s.OpName(op))
		s.Apply(c, op)
	}, nil, nil, false)
	if enabled && c.fail == nil {
		canon = s.Canon()
	}
	return
}

// ReplayPath re-executes one recorded operation path (for --replay).
func ReplayPath(newSys func() Sys, ops []int) (*Failure, []string) {
	c := runOne(func(c *Ctx) {
		s := newSys()
		for _, p := range ops {
			c.Note("%s", s.OpName(p))
			s.Apply(c, p)
		}
	}, nil, nil, true)
	return c.fail, c.notes
}
