// Package vrt is the controlled scheduler of /verif: it enumerates interleavings of real
// goroutines at gate granularity inside a testing/synctest bubble.
//
// A gate (vrt.Gate) parks the calling goroutine on a bubble channel (durably blocked) until
// the scheduler, running on the bubble's root goroutine, releases it.  Gates are placed by
// the shim packages vsync / vatomic / vrand (which the instrumenter substitutes for sync,
// sync/atomic, math/rand in selected files of the package under test) and by harness actors.
//
// Modes: Real (default; shims fall through to the std primitives; used outside bubbles, e.g.
// by the free-running race pass), Free (inside a bubble without control: shim locks poll with
// virtual sleeps so that a blocked goroutine is durably blocked), Controlled (gates park).
package vrt

import (
	"fmt"
	"reflect"
	"runtime"
	"sort"
	"strconv"
	"strings"
	"sync"
	"sync/atomic"
	"testing/synctest"
	"time"
)

// Modes of the shim layer.
const (
	ModeReal int32 = iota
	ModeFree
	ModeControlled
)

var (
	mode atomic.Int32
	cur  atomic.Value // *Sched (typed nil when none)
	// Internal guards shim-internal state (held flags); critical sections are a few instructions.
	Internal sync.Mutex
)

// Mode returns the current shim mode.
func Mode() int32 { return mode.Load() }

// SetMode switches the shim mode (harness only, at quiescent points).
func SetMode(m int32) { mode.Store(m) }

// Chooser is the part of mc.Ctx the scheduler needs.
type Chooser interface {
	Choose(n int, label string) int
	ChooseDev(n int, label string) int
}

// Op describes the operation a goroutine is about to perform at a gate.
type Op struct {
	Kind    string
	Obj     interface{}
	Enabled func() bool // nil: always enabled
}

type waiter struct {
	g  *G
	op Op
	ch chan struct{}
}

// G is a goroutine known to the scheduler.
type G struct {
	ID    int
	Name  string
	goid  uint64
	actor bool
	done  bool
}

// Event is one scheduling step.
type Event struct {
	G    int
	Name string
	Kind string
}

// Sched is one execution's scheduler.
type Sched struct {
	c          Chooser
	mu         sync.Mutex
	gs         []*G
	byGoid     map[uint64]*G
	parked     []*waiter
	wake       chan struct{}
	last       *G
	Steps      int
	MaxSteps   int
	IdleLimit  time.Duration // virtual time to wait for something to become enabled
	Trace      []Event
	actorsLeft int
	Deadlock   bool
	Livelock   bool
	BlockedOn  []string
	Preempts   int
	root       uint64
}

// New creates a scheduler bound to the chooser (an *mc.Ctx).  Must be called inside a bubble.
func New(c Chooser) *Sched {
	s := &Sched{c: c, byGoid: map[uint64]*G{}, wake: make(chan struct{}, 1), MaxSteps: 5000, IdleLimit: time.Hour}
	// control starts now: goroutines started by the harness between New and Run park at their first
	// gate.  The creating goroutine (the scheduler itself) is never gated.
	s.root = goid()
	cur.Store(s)
	mode.Store(ModeControlled)
	return s
}

func goid() uint64 {
	var buf [64]byte
	n := runtime.Stack(buf[:], false)
	// "goroutine 123 ["
	f := strings.Fields(string(buf[:n]))
	id, _ := strconv.ParseUint(f[1], 10, 64)
	return id
}

func (s *Sched) signal() {
	select {
	case s.wake <- struct{}{}:
	default:
	}
}

// Go starts an actor goroutine; it first parks at a "start" gate.  Run returns when all actors are done.
func (s *Sched) Go(name string, fn func()) { s.spawn(name, fn, true) }

// GoBG starts a background goroutine under control (deterministic logical id) that Run does not wait for,
// e.g. an acceptor loop that may stay blocked for ever.
func (s *Sched) GoBG(name string, fn func()) { s.spawn(name, fn, false) }

func (s *Sched) spawn(name string, fn func(), actor bool) {
	s.mu.Lock()
	g := &G{ID: len(s.gs), Name: name, actor: actor}
	s.gs = append(s.gs, g)
	if actor {
		s.actorsLeft++
	}
	s.mu.Unlock()
	ready := make(chan struct{})
	go func() {
		s.mu.Lock()
		g.goid = goid()
		s.byGoid[g.goid] = g
		s.mu.Unlock()
		close(ready)
		defer func() {
			s.mu.Lock()
			g.done = true
			if actor {
				s.actorsLeft--
			}
			s.mu.Unlock()
			s.signal()
		}()
		if actor {
			s.gate(Op{Kind: "start"})
		} else {
			Gate(Op{Kind: "start"}) // no-op once control has ended
		}
		fn()
	}()
	<-ready
}

// Gate parks the calling goroutine until the scheduler releases it (Controlled mode only).
func Gate(op Op) {
	if mode.Load() != ModeControlled {
		return
	}
	s, _ := cur.Load().(*Sched)
	if s == nil {
		return
	}
	s.gate(op)
}

func (s *Sched) gate(op Op) {
	id := goid()
	if id == s.root {
		return
	}
	s.mu.Lock()
	g := s.byGoid[id]
	if g == nil {
		g = &G{ID: len(s.gs), Name: "bg", goid: id}
		s.gs = append(s.gs, g)
		s.byGoid[id] = g
	}
	w := &waiter{g: g, op: op, ch: make(chan struct{})}
	s.parked = append(s.parked, w)
	s.mu.Unlock()
	s.signal()
	<-w.ch
}

// Yield is a plain always-enabled gate for harness actors.
func Yield(kind string) { Gate(Op{Kind: kind}) }

// Run schedules until every actor has finished.  Returns an error text on deadlock / livelock.
func (s *Sched) Run() string {
	defer func() {
		// hand everything that is still parked back to the (bubble-)free mode
		mode.Store(ModeFree)
		cur.Store((*Sched)(nil))
		s.mu.Lock()
		for _, w := range s.parked {
			close(w.ch)
		}
		s.parked = nil
		s.mu.Unlock()
	}()
	for {
		synctest.Wait()
		s.mu.Lock()
		if s.actorsLeft == 0 {
			s.mu.Unlock()
			return ""
		}
		var enabled []*waiter
		for _, w := range s.parked {
			if w.op.Enabled == nil || w.op.Enabled() {
				enabled = append(enabled, w)
			}
		}
		if len(enabled) == 0 {
			// nothing can run: let virtual time advance to the next timer
			s.mu.Unlock()
			t := time.NewTimer(s.IdleLimit)
			select {
			case <-s.wake:
				t.Stop()
				continue
			case <-t.C:
			}
			s.mu.Lock()
			s.Deadlock = true
			for _, w := range s.parked {
				s.BlockedOn = append(s.BlockedOn, fmt.Sprintf("%s#%d at %s", w.g.Name, w.g.ID, w.op.Kind))
			}
			for _, g := range s.gs {
				if g.actor && !g.done {
					s.BlockedOn = append(s.BlockedOn, fmt.Sprintf("actor %s#%d unfinished", g.Name, g.ID))
				}
			}
			s.mu.Unlock()
			return "deadlock: " + strings.Join(s.BlockedOn, "; ")
		}
		if s.Steps >= s.MaxSteps {
			s.Livelock = true
			s.mu.Unlock()
			return fmt.Sprintf("livelock: step horizon %d exceeded", s.MaxSteps)
		}
		sort.SliceStable(enabled, func(i, j int) bool {
			li, lj := enabled[i].g == s.last, enabled[j].g == s.last
			if li != lj {
				return li
			}
			return enabled[i].g.ID < enabled[j].g.ID
		})
		var lb strings.Builder
		lb.WriteString("s")
		for _, w := range enabled {
			fmt.Fprintf(&lb, " %d:%s", w.g.ID, w.op.Kind)
		}
		s.mu.Unlock()
		pick := 0
		if len(enabled) > 1 {
			if enabled[0].g == s.last {
				pick = s.c.ChooseDev(len(enabled), lb.String())
				if pick > 0 {
					s.Preempts++
				}
			} else {
				pick = s.c.Choose(len(enabled), lb.String())
			}
		}
		w := enabled[pick]
		s.mu.Lock()
		for i, p := range s.parked {
			if p == w {
				s.parked = append(s.parked[:i], s.parked[i+1:]...)
				break
			}
		}
		s.last = w.g
		s.Steps++
		s.Trace = append(s.Trace, Event{w.g.ID, w.g.Name, w.op.Kind})
		s.mu.Unlock()
		close(w.ch)
	}
}

// TraceString renders the schedule.
func (s *Sched) TraceString() string {
	var b strings.Builder
	for _, e := range s.Trace {
		fmt.Fprintf(&b, "%s#%d:%s ", e.Name, e.G, e.Kind)
	}
	return b.String()
}

// FreeWait is what a shim lock does in Free mode while the lock is held: a virtual sleep, so
// that the goroutine is durably blocked and the bubble can make progress.
func FreeWait() { time.Sleep(time.Microsecond) }

// ---- map iteration order as an explorer choice ----

var orderChooser atomic.Value // *orderHolder

type orderHolder struct{ c Chooser }

// SetOrderChooser installs (nil: removes) the chooser that decides map visiting orders at the
// sites rewritten by vinstr.  Without one the order is the sorted key order (deterministic).
func SetOrderChooser(c Chooser) {
	if c == nil {
		orderChooser.Store((*orderHolder)(nil))
		return
	}
	orderChooser.Store(&orderHolder{c})
}

// StringKeys returns the keys of a map[string]T in the order chosen by the explorer: every
// permutation for up to 3 keys, every rotation and its reversal above that.
func StringKeys(m interface{}, site string) []string {
	rv := reflect.ValueOf(m)
	keys := make([]string, 0, rv.Len())
	for _, k := range rv.MapKeys() {
		keys = append(keys, k.String())
	}
	sort.Strings(keys)
	h, _ := orderChooser.Load().(*orderHolder)
	n := len(keys)
	if h == nil || n < 2 {
		return keys
	}
	if n <= 3 {
		perms := permutations(n)
		p := perms[h.c.Choose(len(perms), "order:"+site)]
		out := make([]string, n)
		for i, j := range p {
			out[i] = keys[j]
		}
		return out
	}
	k := h.c.Choose(2*n, "order:"+site)
	out := make([]string, n)
	for i := range out {
		out[i] = keys[(i+k%n)%n]
	}
	if k >= n {
		for i, j := 0, n-1; i < j; i, j = i+1, j-1 {
			out[i], out[j] = out[j], out[i]
		}
	}
	return out
}

func permutations(n int) [][]int {
	if n == 1 {
		return [][]int{{0}}
	}
	var out [][]int
	for _, p := range permutations(n - 1) {
		for pos := 0; pos <= len(p); pos++ {
			q := make([]int, 0, n)
			q = append(q, p[:pos]...)
			q = append(q, n-1)
			q = append(q, p[pos:]...)
			out = append(out, q)
		}
	}
	return out
}
